#!/bin/sh
# runs the repository's own test suite (guard off; there are no hooks) in a scratch build dir
B=${1:-/tmp/libjwt-baseline}
cmake -G Ninja -S ${VERIF_REPO:-/repo} -B $B -DCMAKE_C_FLAGS=-Wno-error -DWITH_GNUTLS=ON -DWITH_TESTS=ON >/dev/null && cmake --build $B >/dev/null 2>&1 && ctest --test-dir $B -j8 --timeout 900 2>&1 | tail -6
