// vcops.h - checker operation alphabet, classified token pool and executor (shared by C13 and C14)
#pragma once
#include "vops.h"
namespace vo {
// ------------------------------------------------------------------ checker ops
enum { C_SETKEY, C_CLAIM_SET, C_CLAIM_DEL, C_LEEWAY, C_SETCB, C_CLOCK, C_VERIFY, C_ERRCLR, C_N };
static const char *CN[] = {"setkey", "claim_set", "claim_del", "time_leeway", "setcb", "clock", "verify", "error_clear"};
struct COp { int k = 0, a = 0, b = 0; };
enum { VCB_NONE, VCB_SELECT, VCB_FAIL, VCB_MUTATE, VCB_KID, VCB_ALG_ONLY, VCB_MISMATCH, VCB_KEY_NOALG, VCB_N };   // the last three return 0 and leave the config in a state the key/alg policy refuses
static const char *VCBN[] = {"none", "selects-key+alg", "fails", "mutates-token", "selects-key-by-kid", "sets-alg-without-key", "sets-alg-other-than-the-key's", "selects-key-without-alg"};
struct VCtx { int kind; int other = 0; };   // other: key-selecting callbacks hand out ANOTHER key of the same kind and algorithm (what a key rotation behind a kid lookup does)
inline const jwk_item_t *unknown_alg_key() { static LKey *k = nullptr; if (!k) { JwkOpts o; o.alg = "RSA-OAEP-256"; o.priv = false; k = new LKey(jwk_json(pool().get("rsa_2048"), o)); } return k->item; }
inline const jwk_item_t *other_oct_key() { static LKey *k = nullptr; if (!k) { JwkOpts o; o.alg = "HS256"; o.priv = true; k = new LKey(jwk_json(pool().get("oct64b"), o)); } return k->item; }
// a callback registered WITHOUT a context (setcb(obj, cb, NULL) - what the command-line tools do): it finds its state in a global
inline VCtx &noctx_state() { static VCtx v{VCB_NONE}; return v; }
static int checker_cb_body(jwt_t *jwt, jwt_config_t *c, VCtx *x);
static int checker_cb(jwt_t *jwt, jwt_config_t *c) { return checker_cb_body(jwt, c, (VCtx *)c->ctx); }
static int checker_cb_noctx(jwt_t *jwt, jwt_config_t *c) { if (c->ctx) return 1; return checker_cb_body(jwt, c, &noctx_state()); }
static int checker_cb_body(jwt_t *jwt, jwt_config_t *c, VCtx *x) {
  switch (x->kind) {
  case VCB_SELECT: c->key = x->other ? other_oct_key() : keytab()[1].lk->item; c->alg = JWT_ALG_HS256; return 0;
  case VCB_FAIL: return 1;
  case VCB_ALG_ONLY: c->key = nullptr; c->alg = JWT_ALG_HS256; return 0;
  case VCB_MISMATCH: c->key = keytab()[1].lk->item; c->alg = JWT_ALG_HS512; return 0;
  case VCB_KEY_NOALG: c->key = x->other ? unknown_alg_key() : keytab()[0].lk->item; c->alg = JWT_ALG_NONE; return 0;   // other: a cleanly loaded key whose alg attribute is a string libjwt has no name for
  case VCB_KID: { jwt_value_t v = val_get(JWT_VALUE_STR, "kid"); if (jwt_header_get(jwt, &v) == JWT_VALUE_ERR_NONE && v.str_val && !strcmp(v.str_val, "known")) { c->key = x->other ? other_oct_key() : keytab()[1].lk->item; c->alg = JWT_ALG_HS256; } return 0; }   // per-token choice: must not stick to the checker
  case VCB_MUTATE: { jwt_value_t v = val_str("zz", "1", 1); jwt_claim_set(jwt, &v); jwt_header_del(jwt, "typ"); return 0; }
  }
  return 0;
}
static std::vector<std::pair<std::string, std::string>> TOKENS;  // (class, token); empty class "NULL" = NULL pointer
static void init_tokens() {
  Pool &p = pool(); const KeySpec &oct = p.get("oct64"), &ec = p.get("ec_p256");
  auto H = [](const char *a) { return std::string("{\"alg\":\"") + a + "\",\"typ\":\"JWT\"}"; };
  std::string good = "{\"iss\":\"issuer\",\"sub\":\"s\",\"exp\":1800000000,\"nbf\":1600000000}";
  TOKENS.push_back({"valid-hs256", ref_token(oct, JWT_ALG_HS256, H("HS256"), good)});
  TOKENS.push_back({"valid-es256", ref_token(ec, JWT_ALG_ES256, H("ES256"), good)});
  { std::string t = ref_token(oct, JWT_ALG_HS256, H("HS256"), good); t[t.size() - 2] = t[t.size() - 2] == 'A' ? 'B' : 'A'; TOKENS.push_back({"bad-signature", t}); }
  TOKENS.push_back({"expired", ref_token(oct, JWT_ALG_HS256, H("HS256"), "{\"iss\":\"issuer\",\"exp\":5}")});
  TOKENS.push_back({"nbf-future", ref_token(oct, JWT_ALG_HS256, H("HS256"), "{\"iss\":\"issuer\",\"nbf\":4000000000}")});
  TOKENS.push_back({"wrong-iss", ref_token(oct, JWT_ALG_HS256, H("HS256"), "{\"iss\":\"other\"}")});
  TOKENS.push_back({"no-dots", "eyJhbGciOiJIUzI1NiJ9"});
  TOKENS.push_back({"one-dot", "eyJhbGciOiJIUzI1NiJ9.e30"});
  TOKENS.push_back({"header-bad-base64", "!!!!.e30.AAAA"});
  TOKENS.push_back({"header-not-json", b64u_enc("not json") + ".e30.AAAA"});
  TOKENS.push_back({"missing-alg", b64u_enc("{\"typ\":\"JWT\"}") + ".e30."});
  TOKENS.push_back({"unknown-alg", b64u_enc("{\"alg\":\"XS999\"}") + ".e30.AAAA"});
  TOKENS.push_back({"none-with-signature", b64u_enc("{\"alg\":\"none\"}") + ".e30.AAAA"});
  TOKENS.push_back({"payload-not-json", b64u_enc(H("HS256")) + "." + b64u_enc("{oops") + ".AAAA"});
  TOKENS.push_back({"valid-none", b64u_enc("{\"alg\":\"none\"}") + "." + b64u_enc(good) + "."});
  TOKENS.push_back({"NULL", ""});
  TOKENS.push_back({"empty", ""});
  TOKENS.push_back({"valid-hs256-kid-known", ref_token(oct, JWT_ALG_HS256, "{\"alg\":\"HS256\",\"kid\":\"known\"}", good)});
  TOKENS.push_back({"valid-hs256-kid-unknown", ref_token(oct, JWT_ALG_HS256, "{\"alg\":\"HS256\",\"kid\":\"other\"}", good)});
  TOKENS.push_back({"valid-hs256-noclaims", ref_token(oct, JWT_ALG_HS256, H("HS256"), "{}")});
  // inputs that make the error message as long as its buffer (messages quote the offending text)
  TOKENS.push_back({"unknown-alg-240-chars", b64u_enc("{\"alg\":\"" + std::string(240, 'Q') + "\"}") + ".e30.AAAA"});
  TOKENS.push_back({"unknown-alg-241-chars", b64u_enc("{\"alg\":\"" + std::string(241, 'Q') + "\"}") + ".e30.AAAA"});
  TOKENS.push_back({"unknown-alg-5000-chars", b64u_enc("{\"alg\":\"" + std::string(5000, 'Q') + "\"}") + ".e30.AAAA"});
}
static const int CKEYS[] = {-1, 0, 1, 3, 4, 2, 5};
static const jwt_alg_t CALGS[] = {JWT_ALG_NONE, JWT_ALG_HS256, JWT_ALG_ES256, JWT_ALG_HS512};
static const long CLEE[] = {-1, 0, 5, 1L << 33};

struct CExec { jwt_checker_t *c; VCtx cx{VCB_NONE}; CExec() { c = jwt_checker_new(); } ~CExec() { jwt_checker_free(c); } };
static std::string cop_str(const COp &o) {
  std::string s = CN[o.k % C_N]; s += "(";
  switch (o.k % C_N) {
  case C_SETKEY: { int k = CKEYS[o.b % 7]; jwt_alg_t a = CALGS[o.a % 4]; s += std::string(a == JWT_ALG_NONE ? "none" : jwt_alg_str(a)) + "," + (k < 0 ? "NULL" : keytab()[k].label); break; }
  case C_CLAIM_SET: s += std::string(o.a % 3 == 0 ? "iss" : o.a % 3 == 1 ? "sub" : "exp!") + "," + ((o.b % 7) == 6 ? "not-utf8" : o.b & 1 ? "issuer" : "other"); break;
  case C_CLAIM_DEL: s += o.a % 2 ? "sub" : "iss"; break;
  case C_LEEWAY: s += std::string(o.a & 1 ? "nbf" : "exp") + "," + std::to_string(CLEE[o.b % 4]); break;
  case C_SETCB: s += VCBN[o.a % VCB_N]; if ((o.b % 3) == 2 && (o.a % VCB_N == VCB_SELECT || o.a % VCB_N == VCB_KID)) s += ",other-key-of-the-same-kind"; if ((o.b % 3) == 2 && o.a % VCB_N == VCB_KEY_NOALG) s += ",key-with-unknown-alg-attribute"; if ((o.b % 5) == 4 && o.a % VCB_N != VCB_NONE) s += ",registered-without-ctx"; break;
  case C_CLOCK: s += std::to_string(CLK[o.a % 5]); break;
  case C_VERIFY: s += TOKENS[o.a % TOKENS.size()].first; break;
  }
  return s + ")";
}
struct VRes { int ret, err; std::string msg; };
static VRes capply(CExec &x, const COp &o, bool *is_verify = nullptr) {
  VRes r{0, 0, ""}; jwt_checker_t *c = x.c;
  switch (o.k % C_N) {
  case C_SETKEY: { int k = CKEYS[o.b % 7]; r.ret = jwt_checker_setkey(c, CALGS[o.a % 4], k < 0 ? nullptr : keytab()[k].lk->item); break; }
  case C_CLAIM_SET: r.ret = jwt_checker_claim_set(c, o.a % 3 == 0 ? JWT_CLAIM_ISS : o.a % 3 == 1 ? JWT_CLAIM_SUB : JWT_CLAIM_EXP, (o.b % 7) == 6 ? "caf\xe9.example" /* Latin-1, not UTF-8: refused */ : o.b & 1 ? "issuer" : "other"); break;
  case C_CLAIM_DEL: r.ret = jwt_checker_claim_del(c, o.a % 2 ? JWT_CLAIM_SUB : JWT_CLAIM_ISS); break;
  case C_LEEWAY: r.ret = jwt_checker_time_leeway(c, o.a & 1 ? JWT_CLAIM_NBF : JWT_CLAIM_EXP, (time_t)CLEE[o.b % 4]); break;
  case C_SETCB: { int kind = o.a % VCB_N; x.cx.kind = kind; x.cx.other = (o.b % 3) == 2;
    if (kind != VCB_NONE && (o.b % 5) == 4) { noctx_state() = x.cx; r.ret = jwt_checker_setcb(c, checker_cb_noctx, nullptr); }   // registered without a context
    else r.ret = jwt_checker_setcb(c, kind == VCB_NONE ? nullptr : checker_cb, kind == VCB_NONE ? nullptr : &x.cx);
    break; }
  case C_CLOCK: set_now((time_t)CLK[o.a % 5]); break;
  case C_ERRCLR: jwt_checker_error_clear(c); break;
  case C_VERIFY: { auto &t = TOKENS[o.a % TOKENS.size()]; if (is_verify) *is_verify = true; r.ret = jwt_checker_verify(c, t.first == "NULL" ? nullptr : t.second.c_str()); r.err = jwt_checker_error(c); r.msg = jwt_checker_error_msg(c) ? jwt_checker_error_msg(c) : ""; break; }
  }
  return r;
}


}  // namespace vo
