// C15 - header/claim set/get/del behave as a typed map: exhaustive short sequences + rapidcheck long ones,
// against a std::map model, on builders and on the jwt_t handed to generate/verify callbacks.
#include <rapidcheck.h>
#include "vlib.h"
#include "vkeys.h"
#include <climits>
using namespace v;
template <typename T> static rc::Gen<T> UNI(T lo, T hi) { return rc::gen::resize(100, rc::gen::inRange<T>(lo, hi)); }

enum { T_SET, T_GET, T_DEL, T_GEN };   // T_GEN: (builder targets) a token is generated in between - the maps are what they were
struct Op { int t, vt, name, val, rep; };  // vt: 1 INT 2 STR 3 BOOL 4 JSON (jwt_value_type_t)

static const std::string LONGNAME = "a" + std::string(256, 'x');   // differs from "a" only beyond 256 characters
static const char *NAMES[] = {"a", "b", "alg", "\xc3\xa9\xe2\x82\xac", "exp", "", nullptr, LONGNAME.c_str()};
static const int NNAMES = 8;
static const long INTS[] = {0, 1, -1, LONG_MIN, LONG_MAX, 1700000000, 42};
static const char *STRS[] = {"x", "", "y", "h\xc3\xa9llo", "a\"b\\c", nullptr, "none"};
static const int BOOLS[] = {0, 1, 7, -1};
static const char *JSONS[] = {"{\"k\":1}", "[1,2,{\"z\":null}]", "{}", "[]", "{\"a\":9,\"c\":true,\"alg\":\"x\"}", "{\"b\":{\"n\":[1]},\"d\":\"s\"}", "5", "\"str\"", "null", "{\"k\":", "", "{\"a\":1,\"a\":2}", "{\"a\":1} trailing", nullptr, "true", "{\"\":1}",
                              // members of every JSON type under the names the typed getters ask for (reals and null can only arrive this way)
                              "{\"a\":1.5,\"b\":null,\"exp\":2.5e3}", "{\"a\":[1],\"b\":\"s\",\"exp\":true}", "{\"a\":1.0,\"b\":false,\"alg\":7}", "{\"a\":{\"k\":{\"old\":1}},\"b\":-0.0}", "{\"a\":{\"k\":{\"new\":2}},\"exp\":1e400}",
                              // reals that need 16-17 significant digits, the largest and the smallest double, an integer beyond 2^53
                              "{\"a\":0.30000000000000004,\"b\":3.141592653589793}", "{\"a\":[1.7976931348623157e308,5e-324],\"b\":{\"t\":1736432434.1234567,\"i\":9007199254740993}}"};
static const int NINTS = 7, NSTRS = 7, NBOOLS = 4, NJSONS = 23;

static std::string op_str(const Op &o) {
  const char *n = NAMES[o.name % NNAMES];
  std::string nm = n ? (std::string("\"") + n + "\"") : "NULL";
  const char *tn[] = {"?", "INT", "STR", "BOOL", "JSON"};
  if (o.t == T_GEN) return "generate()";
  if (o.t == T_DEL) return "del(" + nm + ")";
  if (o.t == T_GET) return std::string("get") + tn[o.vt] + "(" + nm + ")";
  std::string v;
  switch (o.vt) { case 1: v = std::to_string(INTS[o.val % NINTS]); break; case 2: v = STRS[o.val % NSTRS] ? std::string("\"") + STRS[o.val % NSTRS] + "\"" : "NULL"; break; case 3: v = std::to_string(BOOLS[o.val % NBOOLS]); break; case 4: v = JSONS[o.val % NJSONS] ? std::string("'") + JSONS[o.val % NJSONS] + "'" : "NULL"; break; }
  return std::string("set") + tn[o.vt] + "(" + nm + "," + v + (o.rep ? ",replace" : "") + ")";
}

// ------------------------------------------------------------------ model
typedef std::map<std::string, J> Map;
struct Res { int code = 0; bool has_val = false; J val; bool code_alt_invalid = false; };  // expected outcome

static J snapshot(const Map &m) { json_t *o = json_object(); for (auto &kv : m) json_object_set(o, kv.first.c_str(), kv.second.p); return J(o); }

static Res model_apply(Map &m, const Op &o) {
  Res r; const char *n = NAMES[o.name % NNAMES]; bool noname = !n || !*n;
  if (o.t == T_GEN) { r.code = JWT_VALUE_ERR_NONE; return r; }
  if (o.t == T_DEL) { if (noname) m.clear(); else m.erase(n); r.code = JWT_VALUE_ERR_NONE; return r; }
  if (o.t == T_GET) {
    if (o.vt == JWT_VALUE_JSON) {
      if (noname) { r.code = JWT_VALUE_ERR_NONE; r.has_val = true; r.val = snapshot(m); return r; }
      auto it = m.find(n); if (it == m.end()) { r.code = JWT_VALUE_ERR_NOEXIST; return r; }
      if (json_is_object(it->second.p) || json_is_array(it->second.p)) { r.code = JWT_VALUE_ERR_NONE; r.has_val = true; r.val = it->second; return r; }
      r.code = JWT_VALUE_ERR_TYPE; r.code_alt_invalid = true; return r;  // scalar member asked as JSON: TYPE or INVALID
    }
    if (noname) { r.code = JWT_VALUE_ERR_INVALID; return r; }
    auto it = m.find(n); if (it == m.end()) { r.code = JWT_VALUE_ERR_NOEXIST; return r; }
    json_t *v = it->second.p;
    bool ok = o.vt == JWT_VALUE_INT ? json_is_integer(v) : o.vt == JWT_VALUE_STR ? json_is_string(v) : json_is_boolean(v);
    if (!ok) { r.code = JWT_VALUE_ERR_TYPE; return r; }
    r.code = JWT_VALUE_ERR_NONE; r.has_val = true; r.val = it->second; return r;
  }
  // SET
  if (o.vt == JWT_VALUE_JSON) {
    const char *txt = JSONS[o.val % NJSONS];
    J parsed = txt ? J::parse(txt, JSON_REJECT_DUPLICATES) : J();
    if (!parsed || !(json_is_object(parsed.p) || json_is_array(parsed.p))) { r.code = JWT_VALUE_ERR_INVALID; return r; }
    if (noname) {
      if (!json_is_object(parsed.p)) { r.code = JWT_VALUE_ERR_INVALID; return r; }   // an array cannot be merged into a map
      const char *k; json_t *v; json_object_foreach(parsed.p, k, v) { if (o.rep || !m.count(k)) { json_incref(v); m[k] = J(v); } }
      r.code = JWT_VALUE_ERR_NONE; return r;
    }
    if (m.count(n) && !o.rep) { r.code = JWT_VALUE_ERR_EXIST; return r; }
    m[n] = parsed; r.code = JWT_VALUE_ERR_NONE; return r;
  }
  if (noname) { r.code = JWT_VALUE_ERR_INVALID; return r; }
  if (o.vt == JWT_VALUE_STR && !STRS[o.val % NSTRS]) { r.code = JWT_VALUE_ERR_INVALID; return r; }
  if (m.count(n) && !o.rep) { r.code = JWT_VALUE_ERR_EXIST; return r; }
  if (o.vt == JWT_VALUE_INT) m[n] = J(json_integer(INTS[o.val % NINTS]));
  else if (o.vt == JWT_VALUE_STR) m[n] = J(json_string(STRS[o.val % NSTRS]));
  else m[n] = J(json_boolean(BOOLS[o.val % NBOOLS]));
  r.code = JWT_VALUE_ERR_NONE; return r;
}

// ------------------------------------------------------------------ targets
struct Target {
  int which;  // 0 builder headers, 1 builder claims, 2 jwt_t headers, 3 jwt_t claims
  jwt_builder_t *b = nullptr; jwt_t *j = nullptr;
  jwt_value_error_t set(jwt_value_t *v) { return which == 0 ? jwt_builder_header_set(b, v) : which == 1 ? jwt_builder_claim_set(b, v) : which == 2 ? jwt_header_set(j, v) : jwt_claim_set(j, v); }
  jwt_value_error_t get(jwt_value_t *v) { return which == 0 ? jwt_builder_header_get(b, v) : which == 1 ? jwt_builder_claim_get(b, v) : which == 2 ? jwt_header_get(j, v) : jwt_claim_get(j, v); }
  jwt_value_error_t del(const char *n) { return which == 0 ? jwt_builder_header_del(b, n) : which == 1 ? jwt_builder_claim_del(b, n) : which == 2 ? jwt_header_del(j, n) : jwt_claim_del(j, n); }
};

static std::string TRACE;
// executes ops on the target, comparing with the model after every step; returns violated clause or ""
static std::string exec_ops(Target &t, Map &m, const std::vector<Op> &ops) {
  int stale = JWT_VALUE_ERR_NONE;   // what the previous request returned
  for (const Op &o : ops) {
    Map before = m;
    Res want = model_apply(m, o);
    const char *n = NAMES[o.name % NNAMES];
    int code = -1; std::string detail;
    TRACE += op_str(o);
    if (o.t == T_GEN) { code = JWT_VALUE_ERR_NONE; if (t.b) { char *tok = jwt_builder_generate(t.b); free(tok); } }
    else if (o.t == T_DEL) { code = t.del(n); }
    else if (o.t == T_GET) {
      jwt_value_t v = val_get((jwt_value_type_t)o.vt, n);
      v.error = (jwt_value_error_t)stale;   // a caller that fills the struct by hand and re-uses it: the error field still holds the previous request's code
      code = t.get(&v);
      if ((int)v.error != code) return "return-code-differs-from-value.error";
      if (code == JWT_VALUE_ERR_NONE && want.code == JWT_VALUE_ERR_NONE) {
        bool same = true;
        if (o.vt == JWT_VALUE_INT) same = (json_int_t)v.int_val == json_integer_value(want.val.p);
        else if (o.vt == JWT_VALUE_STR) same = v.str_val && !strcmp(v.str_val, json_string_value(want.val.p));
        else if (o.vt == JWT_VALUE_BOOL) same = (v.bool_val != 0) == json_is_true(want.val.p) && (v.bool_val == 0 || v.bool_val == 1);
        else { J got = v.json_val ? J::parse(v.json_val, JSON_DECODE_ANY) : J(); same = jeq(got, want.val); }
        if (!same) return "get-returns-wrong-value";
      }
      if (o.vt == JWT_VALUE_JSON && v.json_val) free(v.json_val);
    } else {
      jwt_value_t v;
      switch (o.vt) {
      case JWT_VALUE_INT: v = val_int(n, INTS[o.val % NINTS], o.rep); break;
      case JWT_VALUE_STR: v = val_str(n, STRS[o.val % NSTRS], o.rep); break;
      case JWT_VALUE_BOOL: v = val_bool(n, BOOLS[o.val % NBOOLS], o.rep); break;
      default: v = val_json(n, JSONS[o.val % NJSONS], o.rep); break;
      }
      v.error = (jwt_value_error_t)stale;
      code = t.set(&v);
      if ((int)v.error != code) return "return-code-differs-from-value.error";
    }
    stale = code;
    TRACE += "=" + std::to_string(code) + "; ";
    bool code_ok = code == want.code || (want.code_alt_invalid && code == JWT_VALUE_ERR_INVALID);
    if (!code_ok) return std::string(o.t == T_SET ? "set" : o.t == T_GET ? "get" : o.t == T_GEN ? "generate" : "del") + "-code:want" + std::to_string(want.code) + "-got" + std::to_string(code);
    // state snapshot must equal the model (so "refused and no change" is checked on state)
    jwt_value_t sv = val_get(JWT_VALUE_JSON, nullptr);
    if (t.get(&sv) != JWT_VALUE_ERR_NONE || !sv.json_val) return "snapshot-failed";
    J got = J::parse(sv.json_val); free(sv.json_val);
    if (!jeq(got, snapshot(m))) { TRACE += " state=" + got.dump() + " model=" + snapshot(m).dump(); return std::string("state-differs-after-") + (o.t == T_SET ? (want.code ? "refused-set" : "set") : o.t == T_GET ? "get" : o.t == T_GEN ? "generate" : "del"); }
  }
  return "";
}

struct CbCtx { const std::vector<Op> *ops; int which; std::string result; Map *m; bool ran = false; };
static int cb_fn(jwt_t *jwt, jwt_config_t *c) {
  CbCtx *x = (CbCtx *)c->ctx; Target t; t.which = x->which; t.j = jwt; x->ran = true;
  x->result = exec_ops(t, *x->m, *x->ops); return 0;
}

// target kinds: 0,1 builder; 2,3 generate-callback jwt_t; 4,5 verify-callback jwt_t (headers, claims)
static std::string run_seq(int tk, const std::vector<Op> &ops) {
  TRACE.clear();
  Map m; std::string r;
  if (tk <= 1) { Target t; t.which = tk; t.b = jwt_builder_new(); r = exec_ops(t, m, ops); jwt_builder_free(t.b); return r; }
  if (tk <= 3) {
    jwt_builder_t *b = jwt_builder_new(); jwt_builder_enable_iat(b, 0);
    // builder content is what the callback's token starts from
    jwt_value_t v = val_int("a", 42); if (tk == 2) { jwt_builder_header_set(b, &v); } else { jwt_builder_claim_set(b, &v); }
    m["a"] = J(json_integer(42));
    CbCtx cx{&ops, tk, "", &m}; jwt_builder_setcb(b, cb_fn, &cx);
    char *out = jwt_builder_generate(b); free(out);
    // the builder's own maps must be untouched by what the callback did
    jwt_value_t sv = val_get(JWT_VALUE_JSON, nullptr);
    if (tk == 2) jwt_builder_header_get(b, &sv); else jwt_builder_claim_get(b, &sv);
    J got = sv.json_val ? J::parse(sv.json_val) : J(); free(sv.json_val);
    jwt_builder_free(b);
    if (!cx.ran) return "callback-not-run";
    if (!cx.result.empty()) return cx.result;
    J want(json_pack("{s:i}", "a", 42)); if (!jeq(got, want)) return "builder-changed-by-callback-edits";
    return "";
  }
  // verify callback: token with object header/payload
  jwt_checker_t *c = jwt_checker_new();
  std::string hj = "{\"alg\":\"none\",\"a\":true}", pj = "{\"a\":\"s\",\"b\":[1,{\"q\":2}]}";
  std::string tok = b64u_enc(hj) + "." + b64u_enc(pj) + ".";
  J init = J::parse(tk == 4 ? hj : pj); const char *k; json_t *v; json_object_foreach(init.p, k, v) { json_incref(v); m[k] = J(v); }
  CbCtx cx{&ops, tk == 4 ? 2 : 3, "", &m}; jwt_checker_setcb(c, cb_fn, &cx);
  jwt_checker_verify(c, tok.c_str()); jwt_checker_free(c);
  if (!cx.ran) return "callback-not-run";
  return cx.result;
}

// ---- the value macros of jwt.h themselves (vlib/cmacros.c, compiled as C), used the way an application does: one jwt_value_t for a
// read and then for a write derived from what was read - the macro's arguments refer to the struct the macro fills
extern "C" { jwt_value_t *cm_set_int(jwt_value_t *, const char *, long); jwt_value_t *cm_set_str(jwt_value_t *, const char *, const char *); jwt_value_t *cm_set_bool(jwt_value_t *, const char *, int); jwt_value_t *cm_set_json(jwt_value_t *, const char *, const char *);
  jwt_value_t *cm_get_int(jwt_value_t *, const char *); jwt_value_t *cm_get_str(jwt_value_t *, const char *); jwt_value_t *cm_get_bool(jwt_value_t *, const char *); jwt_value_t *cm_get_json(jwt_value_t *, const char *);
  jwt_value_t *cm_set_int_self(jwt_value_t *, const char *, long); jwt_value_t *cm_set_bool_self_not(jwt_value_t *, const char *); jwt_value_t *cm_set_str_self(jwt_value_t *, const char *); jwt_value_t *cm_set_json_self(jwt_value_t *, const char *); jwt_value_t *cm_set_int_samename(jwt_value_t *, long); }
static std::string macro_idioms(int which) {
  jwt_builder_t *b = jwt_builder_new(); std::string r;
  auto set = [&](jwt_value_t *v) { return which ? jwt_builder_claim_set(b, v) : jwt_builder_header_set(b, v); };
  auto get = [&](jwt_value_t *v) { return which ? jwt_builder_claim_get(b, v) : jwt_builder_header_get(b, v); };
  jwt_value_t v; memset(&v, 0xA5, sizeof v);
  do {
    cm_set_int(&v, "ver", 5); if (set(&v)) { r = "set-int-refused"; break; }
    cm_get_int(&v, "ver"); if (get(&v) || v.int_val != 5) { r = "get-int-wrong"; break; }
    cm_set_int_self(&v, "ver2", 1); if (set(&v)) { r = "set-int-derived-from-the-value-just-read:refused"; break; }
    cm_get_int(&v, "ver2"); if (get(&v) || v.int_val != 6) { r = "set-int-derived-from-the-value-just-read:stored-wrong"; break; }
    cm_get_int(&v, "ver"); get(&v); cm_set_int_samename(&v, 7); v.replace = 1; if (set(&v)) { r = "set-under-the-name-just-read:refused"; break; }
    cm_get_int(&v, "ver"); if (get(&v) || v.int_val != 7) { r = "set-under-the-name-just-read:stored-wrong"; break; }
    cm_set_bool(&v, "on", 0); if (set(&v)) { r = "set-bool-refused"; break; }
    cm_get_bool(&v, "on"); if (get(&v) || v.bool_val != 0) { r = "get-bool-wrong"; break; }
    cm_set_bool_self_not(&v, "on2"); if (set(&v)) { r = "set-bool-negation-of-the-value-just-read:refused"; break; }
    cm_get_bool(&v, "on2"); if (get(&v) || v.bool_val != 1) { r = "set-bool-negation-of-the-value-just-read:stored-wrong"; break; }
    cm_set_bool_self_not(&v, "on3"); if (set(&v)) { r = "set-bool-negation-of-the-value-just-read:refused"; break; }
    cm_get_bool(&v, "on3"); if (get(&v) || v.bool_val != 0) { r = "set-bool-negation-of-the-value-just-read:stored-wrong"; break; }
    cm_set_str(&v, "s", "x\xc3\xa9"); if (set(&v)) { r = "set-str-refused"; break; }
    cm_get_str(&v, "s"); if (get(&v) || !v.str_val || strcmp(v.str_val, "x\xc3\xa9")) { r = "get-str-wrong"; break; }
    cm_set_str_self(&v, "s2"); if (set(&v)) { r = "set-str-copy-of-the-value-just-read:refused"; break; }
    cm_get_str(&v, "s2"); if (get(&v) || !v.str_val || strcmp(v.str_val, "x\xc3\xa9")) { r = "set-str-copy-of-the-value-just-read:stored-wrong"; break; }
    cm_set_json(&v, "j", "{\"k\":[1,true]}"); if (set(&v)) { r = "set-json-refused"; break; }
    cm_get_json(&v, "j"); if (get(&v) || !v.json_val) { r = "get-json-wrong"; break; }
    char *txt = v.json_val; cm_set_json_self(&v, "j2"); int sr = set(&v); free(txt); if (sr) { r = "set-json-copy-of-the-value-just-read:refused"; break; }
    cm_get_json(&v, "j2"); if (get(&v) || !v.json_val) { r = "set-json-copy-of-the-value-just-read:stored-wrong"; break; }
    { J got = J::parse(v.json_val), want = J::parse("{\"k\":[1,true]}"); free(v.json_val); if (!jeq(got, want)) { r = "set-json-copy-of-the-value-just-read:stored-wrong"; break; } }
  } while (0);
  jwt_builder_free(b);
  return r;
}

static int CUR_TK = 0; static const std::vector<Op> *CUR_OPS = nullptr;
static std::string case_json(int tk, const std::vector<Op> &ops) {
  std::string s = "{\"target\":" + std::to_string(tk) + ",\"ops\":[";
  for (size_t i = 0; i < ops.size(); i++) s += (i ? "," : "") + std::string("[") + std::to_string(ops[i].t) + "," + std::to_string(ops[i].vt) + "," + std::to_string(ops[i].name) + "," + std::to_string(ops[i].val) + "," + std::to_string(ops[i].rep) + "]";
  s += "],\"readable\":["; for (size_t i = 0; i < ops.size(); i++) s += (i ? "," : "") + jstr(op_str(ops[i]));
  return s + "],\"trace\":" + jstr(TRACE) + "}";
}
static const char *TKN[] = {"builder-headers", "builder-claims", "gen-cb-headers", "gen-cb-claims", "verify-cb-headers", "verify-cb-claims"};

static bool nontrivial(const std::vector<Op> &ops) {
  // collision (set on a name set before), cross-type replace, merge over existing members, delete-all followed by set
  std::set<int> seen; bool cleared = false;
  for (auto &o : ops) {
    if (o.t == T_SET) { bool whole = !NAMES[o.name % NNAMES] || !*NAMES[o.name % NNAMES]; if (whole && o.vt == 4 && !seen.empty()) return true; if (seen.count(o.name % NNAMES)) return true; if (cleared) return true; seen.insert(o.name % NNAMES); }
    if (o.t == T_DEL && (!NAMES[o.name % NNAMES] || !*NAMES[o.name % NNAMES])) cleared = true;
  }
  return false;
}

static bool one(int tk, const std::vector<Op> &ops, bool count) {
  Stats &st = stats(); CUR_TK = tk; CUR_OPS = &ops;
  std::string r = run_seq(tk, ops);
  if (count) { st.evaluations++; st.cls(TKN[tk]); if (nontrivial(ops)) { uint64_t fp = tk; for (auto &o : ops) fp = mix(fp, mix(mix(o.t, o.vt), mix(mix(o.name % NNAMES, o.val), o.rep))); st.nontrivial(fp); } if (st.want_sample()) st.sample(case_json(tk, ops)); }
  if (!r.empty()) { std::string sig = std::string("C15:") + r; if (st.is_known(sig)) { st.known_hits[sig]++; return true; } return false; }
  return true;
}

int main(int argc, char **argv) {
  Args a = parse_args(argc, argv);
  cur_case() = [] { return CUR_OPS ? case_json(CUR_TK, *CUR_OPS) : std::string("{}"); };
  Stats &st = stats();
  if (!a.replay.empty()) {
    J j = J::parse(read_file(a.replay)); if (!j) return 2;
    if (json_object_get(j.p, "kind")) { std::string r = macro_idioms((int)json_integer_value(json_object_get(j.p, "which"))); if (!r.empty()) fprintf(stderr, "replay: %s\n", r.c_str()); return r.empty() ? 0 : 3; }
    std::vector<Op> ops; size_t i; json_t *e;
    json_array_foreach(json_object_get(j.p, "ops"), i, e) { Op o; o.t = (int)json_integer_value(json_array_get(e, 0)); o.vt = (int)json_integer_value(json_array_get(e, 1)); o.name = (int)json_integer_value(json_array_get(e, 2)); o.val = (int)json_integer_value(json_array_get(e, 3)); o.rep = (int)json_integer_value(json_array_get(e, 4)); ops.push_back(o); }
    int tk = (int)json_integer_value(json_object_get(j.p, "target"));
    std::string r = run_seq(tk, ops); if (!r.empty()) fprintf(stderr, "replay: %s | %s\n", r.c_str(), TRACE.c_str());
    return r.empty() ? 0 : 3;
  }
  for (int which = 0; which < 2; which++) if (a.worker == which % a.nworkers) { std::string r = macro_idioms(which); st.evaluations++; st.cls("jwt.h-macro-idioms(read-then-write-through-one-jwt_value_t)"); st.nontrivial(mix(fnv("macro"), which));
    if (!r.empty()) { st.violation("C15:macro:" + r, std::string("jwt.h value macros, ") + (which ? "claims" : "headers") + ": " + r, "{\"kind\":\"macro-idioms\",\"which\":" + std::to_string(which) + "}"); return finish(); } }
  // ---- exhaustive: all sequences up to length L over a fixed alphabet
  std::vector<Op> A = {
    {T_SET, 1, 0, 1, 0}, {T_SET, 1, 0, 3, 1}, {T_SET, 2, 0, 0, 0}, {T_SET, 2, 0, 2, 1}, {T_SET, 3, 0, 1, 0}, {T_SET, 3, 1, 0, 1}, {T_SET, 4, 0, 0, 0}, {T_SET, 4, 0, 1, 1},
    {T_SET, 1, 1, 4, 0}, {T_SET, 2, 5, 0, 0}, {T_SET, 1, 6, 1, 1}, {T_SET, 4, 0, 9, 1}, {T_SET, 4, 0, 6, 1}, {T_SET, 2, 0, 5, 1},
    {T_SET, 4, 6, 4, 0}, {T_SET, 4, 6, 4, 1}, {T_SET, 4, 5, 1, 1}, {T_SET, 4, 6, 9, 1}, {T_SET, 4, 6, 11, 1}, {T_SET, 4, 6, 5, 0},
    {T_GET, 1, 0, 0, 0}, {T_GET, 2, 0, 0, 0}, {T_GET, 3, 0, 0, 0}, {T_GET, 4, 0, 0, 0}, {T_GET, 1, 1, 0, 0}, {T_GET, 2, 5, 0, 0}, {T_GET, 4, 6, 0, 0}, {T_GET, 3, 1, 0, 0},
    {T_DEL, 0, 0, 0, 0}, {T_DEL, 0, 1, 0, 0}, {T_DEL, 0, 6, 0, 0}, {T_DEL, 0, 5, 0, 0}, {T_SET, 4, 1, 13, 1}, {T_SET, 3, 0, 2, 1}, {T_GEN, 0, 0, 0, 0}};
  int L = a.thorough() ? 4 : 3;
  {
    std::vector<Op> seq; uint64_t idx = 0;
    std::function<bool(int)> rec = [&](int depth) -> bool {
      if (depth > 0) {
        if ((int)(idx++ % a.nworkers) == a.worker) {
          for (int tk = 0; tk < 6; tk++) {
            if (a.thorough() && depth == 4 && tk != (int)(idx % 6)) continue;  // length 4: one target per sequence, rotating
            if (!one(tk, seq, true)) { st.violation(std::string("C15:") + run_seq(tk, seq), "typed-map model disagrees on " + std::string(TKN[tk]) + ": " + TRACE.substr(0, 600), case_json(tk, seq)); return false; }
          }
        }
      }
      if (depth == L) return true;
      for (auto &o : A) { seq.push_back(o); bool ok = rec(depth + 1); seq.pop_back(); if (!ok) return false; }
      return true;
    };
    rec(0);
    st.extra["exhaustive_alphabet"] = std::to_string(A.size()); st.extra["exhaustive_max_length"] = std::to_string(L);
  }
  if (!st.violations.empty()) return finish();
  // ---- random long sequences
  uint64_t n = a.thorough() ? 30000 : 1500;
  std::string params = "seed=" + std::to_string(a.seed * 1000 + a.worker) + " max_success=" + std::to_string(n) + " max_size=100";
  setenv("RC_PARAMS", params.c_str(), 1);
  std::vector<Op> lastfail; int lasttk = 0; std::string lastwhy, lasttrace;
  auto genOp = rc::gen::exec([]() { Op o; o.t = *rc::gen::weightedElement<int>({{10, T_SET}, {6, T_GET}, {2, T_DEL}, {1, T_GEN}}); o.vt = *UNI(1, 5); o.name = *rc::gen::weightedElement<int>({{4, 0}, {3, 1}, {2, 2}, {1, 3}, {1, 4}, {1, 5}, {1, 6}}); o.val = *UNI(0, 64); o.rep = *UNI(0, 2); return o; });
  bool ok = rc::check("C15: typed map", [&]() {
    if (v::shrink_exhausted()) return;
    int tk = *UNI(0, 6); int len = *UNI(1, 41);
    std::vector<Op> ops = *rc::gen::container<std::vector<Op>>(len, genOp);
    if (!one(tk, ops, true)) { lastfail = ops; lasttk = tk; lastwhy = run_seq(tk, ops); lasttrace = TRACE; v::fail_seen()++; RC_FAIL(lastwhy); }
  });
  if (!ok && !lastwhy.empty()) { TRACE = lasttrace; st.violation("C15:" + lastwhy, "typed-map model disagrees on " + std::string(TKN[lasttk]) + ": " + lasttrace.substr(0, 600), case_json(lasttk, lastfail)); }
  return finish();
}
