#!/bin/sh
export VERIF_EVIDENCE_DIR=/verif/out/evidence-scratch
# usage: drv/mut.sh <file-rel> <sed-expr> <Cxx> [tier]   -- run a check against a scratch copy of /repo with one edit
set -e
D=$(mktemp -d /tmp/mut-XXXXXX)
rsync -a --exclude _build --exclude .git /repo/ $D/
sed -i "$2" $D/$1
if diff -q /repo/$1 $D/$1 >/dev/null; then echo "MUTATION DID NOT APPLY"; rm -rf $D; exit 3; fi
diff /repo/$1 $D/$1 | head -8
cd /verif; VERIF_REPO=$D ./check.py $3 --tier ${4:-quick} 2>&1 | grep -v "^\[check\]" | grep -v "^  what" | tail -4
rm -rf $D
