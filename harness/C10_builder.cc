// C10 - generated tokens are well-formed and say exactly what the builder was told: stateful model-based
// sequences (rapidcheck) decoded by an independent base64url/JSON reader.
#include <rapidcheck.h>
#include "vops.h"
using namespace v; using namespace vo;
template <typename T> static rc::Gen<T> UNI(T lo, T hi) { return rc::gen::resize(100, rc::gen::inRange<T>(lo, hi)); }

static std::string TRACE;
static int CUR_PROV = 0; static const std::vector<BOp> *CUR = nullptr;

static std::string check_token(const std::string &tok, const GenExpect &e) {
  TokParts tp = split_token(tok);
  if (!tp.ok) return "token-without-two-dots";
  if (tp.s.find('.') != std::string::npos) return "token-with-more-than-three-parts";
  std::string hb, pb, sb;
  if (!is_b64u_text(tp.h) || !is_b64u_text(tp.p) || !is_b64u_text(tp.s)) return "segment-not-unpadded-base64url";
  if (!b64u_dec_strict(tp.h, hb) || b64u_enc(hb) != tp.h) return "header-segment-not-canonical";
  if (!b64u_dec_strict(tp.p, pb) || b64u_enc(pb) != tp.p) return "payload-segment-not-canonical";
  if (!b64u_dec_strict(tp.s, sb) || b64u_enc(sb) != tp.s) return "signature-segment-not-canonical";
  J h = J::parse(hb), p = J::parse(pb);
  if (!h || !json_is_object(h.p)) return "header-not-json-object";
  if (!p || !json_is_object(p.p)) return "payload-not-json-object";
  if (!jeq(h, e.header)) { TRACE += " header=" + h.dump() + " want=" + e.header.dump(); return "header-differs-from-builder-state"; }
  if (!jeq(p, e.payload)) { TRACE += " payload=" + p.dump() + " want=" + e.payload.dump(); return "payload-differs-from-builder-state"; }
  if (e.alg == JWT_ALG_NONE) { if (!tp.s.empty()) return "alg-none-with-signature"; }
  else { if (tp.s.empty()) return "signed-alg-with-empty-signature"; if (!ref_valid(*keytab()[e.key].k, tok)) return "signature-invalid-under-configured-key"; }
  return "";
}

static std::string state_check(BExec &x, const BModel &m) {
  jwt_value_t v = val_get(JWT_VALUE_JSON, nullptr);
  if (jwt_builder_header_get(x.b, &v) || !v.json_val) return "builder-header-snapshot-failed";
  J h = J::parse(v.json_val); free(v.json_val);
  v = val_get(JWT_VALUE_JSON, nullptr);
  if (jwt_builder_claim_get(x.b, &v) || !v.json_val) return "builder-claim-snapshot-failed";
  J c = J::parse(v.json_val); free(v.json_val);
  if (!jeq(h, snapshot(m.headers))) return "builder-headers-differ-from-model";
  if (!jeq(c, snapshot(m.claims))) return "builder-claims-differ-from-model";
  return "";
}

struct SeqStats { int gens = 0, oks = 0; bool overriding = false, user_algtyp = false, mutating = false, offset_change_between = false; };

static std::string run_seq(int prov, const std::vector<BOp> &ops, SeqStats *ss = nullptr) {
  TRACE.clear(); CUR_PROV = prov; CUR = &ops;
  set_provider(prov); set_now(1700000000);
  BExec x; BModel m; std::string bad; bool offs_changed = false;
  for (const BOp &o : ops) {
    TRACE += bop_str(o);
    int k = o.k % B_N;
    if (k == B_GEN) {
      GenExpect e = expect_generate(m, x.cx.count + 1);
      BResult r = apply(x, o);
      TRACE += r.null ? "=NULL[" + r.msg + "]; " : "=token; ";
      if (ss) { ss->gens++; if (!r.null) ss->oks++; if (m.cb == CB_MUTATE) ss->mutating = true; if (m.headers.count("alg") || m.headers.count("typ")) ss->user_algtyp = true;
        if ((m.iat && m.claims.count("iat")) || (m.nbf_on && m.claims.count("nbf")) || (m.exp_on && m.claims.count("exp"))) ss->overriding = true; if (offs_changed && ss->gens > 1) ss->offset_change_between = true; offs_changed = false; }
      if (e.fail) { if (!r.null) bad = "generate-succeeds-where-statement-forbids:" + e.why; }
      else if (r.null) { bool gn = prov == 1 && (e.alg == JWT_ALG_ES256K || (e.key >= 0 && keytab()[e.key].k->crv == "secp256k1")); if (!gn) bad = "generate-fails-for-valid-configuration"; }
      else bad = check_token(r.token, e);
      if (bad.empty()) bad = state_check(x, m);   // the builder itself is unchanged by generating
      if (!bad.empty() && bad.rfind("builder-", 0) == 0) bad += "-after-generate";
    } else {
      if (k == B_OFFSET) offs_changed = true;
      int want = model_apply(m, o);
      BResult r = apply(x, o);
      TRACE += "=" + std::to_string(r.code) + "; ";
      if (r.code == -99) bad = "return-code-differs-from-value.error";
      else if (want != -1000 && r.code != want) bad = std::string("config-return:") + BN[k] + ":want" + std::to_string(want) + "-got" + std::to_string(r.code);
      if (bad.empty()) bad = state_check(x, m);
    }
    if (!bad.empty()) break;
  }
  return bad;
}

static std::string case_json(int prov, const std::vector<BOp> &ops) { return "{\"prov\":" + std::to_string(prov) + ",\"ops\":" + bops_json(ops) + ",\"readable\":" + bops_readable(ops) + ",\"trace\":" + jstr(TRACE) + "}"; }

// ---- the clock moves while a token is generated (every reading of time() advances it): "iat = now, nbf = now + offset, exp = now + offset"
// speak of ONE instant per token - whichever reading that is, the three claims agree on it and it lies within the call
static std::string moving_clock_case(int prov, int keyed, int iat, long nbf_off, long exp_off, long step, bool second_use) {
  const long long T = 1700000000; set_provider(prov); set_now((time_t)T);
  jwt_builder_t *b = jwt_builder_new(); std::string r;
  if (keyed) jwt_builder_setkey(b, JWT_ALG_NONE, keytab()[1].lk->item);
  jwt_builder_enable_iat(b, iat); jwt_builder_time_offset(b, JWT_CLAIM_NBF, nbf_off); jwt_builder_time_offset(b, JWT_CLAIM_EXP, exp_off);
  if (second_use) { char *t0 = jwt_builder_generate(b); free(t0); }
  set_now((time_t)T); set_ticking(step); char *t = jwt_builder_generate(b); set_ticking(0); long long T1 = (long long)now_ref(); set_now((time_t)T);
  if (!t) r = "generate-fails-while-the-clock-moves";
  else { TokParts tp = split_token(t); J p = J::parse(tp.pdec); free(t);
    if (!p || !json_is_object(p.p)) r = "payload-not-json-object";
    else { json_t *ji = json_object_get(p.p, "iat"), *jn = json_object_get(p.p, "nbf"), *je = json_object_get(p.p, "exp"); bool have = false; long long inst = 0;
      auto claim = [&](json_t *j, bool want, long off, const char *nm) { if (!r.empty()) return; if (!want) { if (j) r = std::string(nm) + "-present-although-off"; return; } if (!j || !json_is_integer(j)) { r = std::string(nm) + "-missing"; return; }
        long long base = (long long)json_integer_value(j) - off; if (base < T || base > T1) { r = std::string(nm) + "-not-from-an-instant-within-the-call"; return; } if (have && base != inst) { r = std::string(nm) + "-from-another-instant-than-the-other-time-claims"; return; } have = true; inst = base; };
      claim(ji, iat != 0, 0, "iat"); claim(jn, nbf_off > 0, nbf_off, "nbf"); claim(je, exp_off > 0, exp_off, "exp"); } }
  jwt_builder_free(b); return r;
}
static bool moving_clock_part(const Args &a) {
  Stats &st = stats(); int idx = 0;
  for (int prov = 0; prov < 2; prov++) for (int keyed = 0; keyed < 2; keyed++) for (int iat = 0; iat < 2; iat++) for (long nbf_off : {0L, 30L}) for (long exp_off : {0L, 60L}) for (long step : {1L, 7L}) for (int second = 0; second < 2; second++) {
    if ((idx++ % a.nworkers) != a.worker) continue;
    std::string r = moving_clock_case(prov, keyed, iat, nbf_off, exp_off, step, second != 0);
    st.evaluations++; st.cls("moving-clock-cells"); if (iat + (nbf_off > 0) + (exp_off > 0) >= 2) st.nontrivial(mix(fnv("tick10"), mix(prov * 4 + keyed * 2 + iat, mix(nbf_off * 100 + exp_off, step * 2 + second))));
    if (!r.empty()) { st.violation("C10:moving-clock:" + r, "time claims of one token do not stem from one instant of the call: " + r, "{\"kind\":\"moving-clock\",\"prov\":" + std::to_string(prov) + ",\"keyed\":" + std::to_string(keyed) + ",\"iat\":" + std::to_string(iat) + ",\"nbf_off\":" + std::to_string(nbf_off) + ",\"exp_off\":" + std::to_string(exp_off) + ",\"step\":" + std::to_string(step) + ",\"second\":" + std::to_string(second) + "}"); return false; }
  }
  return true;
}

int main(int argc, char **argv) {
  Args a = parse_args(argc, argv); vo::allow_noctx() = true;
  init_keys(a.thorough());
  cur_case() = [] { return CUR ? case_json(CUR_PROV, *CUR) : std::string("{}"); };
  Stats &st = stats();
  if (!a.replay.empty()) {
    J j = J::parse(read_file(a.replay)); if (!j) return 2;
    if (json_object_get(j.p, "kind")) { auto gi = [&](const char *k) { return (long)json_integer_value(json_object_get(j.p, k)); }; std::string r = moving_clock_case((int)gi("prov"), (int)gi("keyed"), (int)gi("iat"), gi("nbf_off"), gi("exp_off"), gi("step"), gi("second") != 0); if (!r.empty()) fprintf(stderr, "replay: %s\n", r.c_str()); return r.empty() ? 0 : 3; }
    std::vector<BOp> ops = bops_from_json(json_object_get(j.p, "ops"));
    std::string r = run_seq((int)json_integer_value(json_object_get(j.p, "prov")), ops);
    if (!r.empty()) fprintf(stderr, "replay: %s | %s\n", r.c_str(), TRACE.c_str());
    return r.empty() ? 0 : 3;
  }
  if (!moving_clock_part(a)) return finish();
  uint64_t n = a.thorough() ? 100000 : 1200;
  if (a.kv.count("cases")) n = strtoull(a.kv["cases"].c_str(), 0, 10);
  std::string params = "seed=" + std::to_string(a.seed * 1000 + a.worker) + " max_success=" + std::to_string(n) + " max_size=100";
  setenv("RC_PARAMS", params.c_str(), 1);
  std::vector<BOp> lastfail; int lastprov = 0; std::string lastwhy, lasttrace;
  auto genOp = rc::gen::exec([]() { BOp o; o.k = *rc::gen::weightedElement<int>({{3, B_HSET}, {1, B_HDEL}, {4, B_CSET}, {1, B_CDEL}, {1, B_IAT}, {2, B_OFFSET}, {3, B_SETKEY}, {2, B_SETCB}, {1, B_CLOCK}, {5, B_GEN}, {1, B_ERRCLR}});
    o.a = *UNI(0, 1 << 12); o.b = *UNI(0, 1 << 12); o.c = *UNI(0, 4); return o; });
  bool ok = rc::check("C10: tokens say what the builder was told", [&]() {
    if (v::shrink_exhausted()) return;
    int prov = *UNI(0, 2); int len = *UNI(1, 27);
    std::vector<BOp> ops = *rc::gen::container<std::vector<BOp>>(len, genOp);
    SeqStats ss; std::string r = run_seq(prov, ops, &ss);
    st.evaluations++; st.cls("generate-calls", ss.gens); st.cls("generate-ok", ss.oks);
    if (ss.gens >= 2 && (ss.overriding || ss.user_algtyp || ss.mutating || ss.offset_change_between)) { uint64_t fp = prov; for (auto &o : ops) fp = mix(fp, fnv(bop_str(o))); st.nontrivial(fp);
      if (ss.overriding) st.cls("seq-with-overriding-claim"); if (ss.user_algtyp) st.cls("seq-with-user-alg/typ-header"); if (ss.mutating) st.cls("seq-with-mutating-callback"); if (ss.offset_change_between) st.cls("seq-with-offset-change-between-generates"); }
    if (st.want_sample()) st.sample(case_json(prov, ops));
    if (!r.empty()) { std::string sig = "C10:" + r; if (st.is_known(sig)) { st.known_hits[sig]++; return; } lastfail = ops; lastprov = prov; lastwhy = r; lasttrace = TRACE; v::fail_seen()++; RC_FAIL(r); }
  });
  if (!ok && !lastwhy.empty()) { TRACE = lasttrace; st.violation("C10:" + lastwhy, "builder output / state differs from the reference model: " + lasttrace.substr(lasttrace.size() > 700 ? lasttrace.size() - 700 : 0), case_json(lastprov, lastfail)); }
  return finish();
}
