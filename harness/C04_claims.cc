// C04 - claim checks exactly as configured: histories of configuration calls + boundary-relative tokens,
// two-sided reference model, controlled clock (rapidcheck).
#include <rapidcheck.h>
#include "vlib.h"
#include "vkeys.h"
#include <climits>
using namespace v;

template <typename T> static rc::Gen<T> UNI(T lo, T hi) { return rc::gen::resize(100, rc::gen::inRange<T>(lo, hi)); }

static const char *POOLSTR[] = {"issuer", "issuer2", "Issuer", "issue", "xissuer", "", "i", "h\xc3\xa9llo", "h\xc3\xa9llo ", "urn:example:\xe2\x82\xac", "a-rather-long-audience-value-0123456789-0123456789-0123456789-0123456789-0123456789"};
static const int NPOOL = 11;
static const jwt_claims_t TY[] = {JWT_CLAIM_ISS, JWT_CLAIM_SUB, JWT_CLAIM_AUD};
static const char *TN[] = {"iss", "sub", "aud"};

enum { OP_SET, OP_SET_BAD, OP_DEL, OP_DEL_BAD, OP_LEEWAY, OP_LEEWAY_BAD, OP_CLOCK, OP_VERIFY, OP_N };
struct Op {
  int kind = 0; int a = 0, b = 0; long long v = 0;
  // token spec (OP_VERIFY)
  int signed_ = 0; int expk = 0, nbfk = 0; long long expd = 0, nbfd = 0; int sk[3] = {0, 0, 0}; int sv[3] = {0, 0, 0};
};

// kinds for exp/nbf: 0 absent, 1 boundary+delta, 2 extreme idx, 3 wrong type idx, 4 absolute random
static const char *WRONG[] = {"1.5", "1e10", "1.0", "\"1700000000\"", "true", "null", "[1]", "{\"a\":1}", "-0.0", "99999999999999999999"};
static const int NWRONG = 10;
static const long long EXTREME[] = {LLONG_MIN, -1, 0, LLONG_MAX, 1, LLONG_MAX - 1, LLONG_MIN + 1};
static const int NEXT = 7;
// kinds for string claims: 0 absent, 1 equal, 2 prefix, 3 suffix-extended, 4 case change, 5 empty, 6 pool[sv], 7 wrong type idx, 8 escaped NUL, 9 trailing space, 10-15 long extensions
static const char *SWRONG[] = {"1", "true", "null", "[\"issuer\"]", "{\"v\":\"issuer\"}", "1.5"};

struct Model {
  bool exp_on = true, nbf_on = true; long long exp_lee = 0, nbf_lee = 0;
  bool on[3] = {false, false, false}; std::string val[3];
  bool undet[3] = {false, false, false};   // a claim_set for this claim was REFUSED (value not valid UTF-8): what is in force afterwards is not said - it may keep the old value or reject everything, never accept anything else
  long long now = 1700000000;
};

static std::string confuse(const std::string &e, int kind, int sv) {
  switch (kind) {
  case 1: return e;
  case 2: return e.empty() ? "" : e.substr(0, e.size() - 1);
  case 3: return e + "x";
  case 4: { std::string r = e; for (auto &c : r) { if (c >= 'a' && c <= 'z') { c -= 32; break; } if (c >= 'A' && c <= 'Z') { c += 32; break; } } return r; }
  case 5: return "";
  case 6: return POOLSTR[sv % NPOOL];
  case 9: return e + " ";
  // the expected value followed by 255 / 256 / 257 / 512 / 65536 / 65537 further characters (length differences that vanish in 8 or 16 bits)
  case 10: return e + std::string(255, 'x'); case 11: return e + std::string(256, 'x'); case 12: return e + std::string(257, 'x');
  case 13: return e + std::string(512, 'y'); case 14: return e + std::string(65536, 'z'); case 15: return e + std::string(65537, 'z');
  }
  return e;
}

struct Built { std::string payload; bool has_exp = false, exp_int = false; long long exp = 0; bool has_nbf = false, nbf_int = false; long long nbf = 0; bool has[3] = {false, false, false}, is_str[3] = {false, false, false}; std::string s[3]; bool parse_ok = true; std::string klass; };

static Built build_payload(const Model &m, const Op &o) {
  Built b; std::string p = "{\"k\":1";
  auto timeclaim = [&](const char *name, int kind, long long d, long long boundary, bool &has, bool &isint, long long &val) {
    switch (kind % 5) {
    case 0: return;
    case 1: { has = true; isint = true; long long dd = d % 5 - 2; val = boundary + dd; p += std::string(",\"") + name + "\":" + std::to_string(val); b.klass += std::string(name) + "@" + std::to_string(dd) + " "; return; }
    case 2: { has = true; isint = true; val = EXTREME[(unsigned long long)d % NEXT]; p += std::string(",\"") + name + "\":" + std::to_string(val); b.klass += std::string(name) + "=extreme "; return; }
    case 3: { has = true; isint = false; int wi = (int)((unsigned long long)d % NWRONG); p += std::string(",\"") + name + "\":" + WRONG[wi]; if (wi == 9) b.parse_ok = false; b.klass += std::string(name) + "=wrongtype:" + WRONG[wi] + " "; return; }
    case 4: { has = true; isint = true; val = d; p += std::string(",\"") + name + "\":" + std::to_string(val); b.klass += std::string(name) + "=abs "; return; }
    }
  };
  timeclaim("exp", o.expk, o.expd, m.exp_on ? m.now - m.exp_lee : m.now, b.has_exp, b.exp_int, b.exp);
  timeclaim("nbf", o.nbfk, o.nbfd, m.nbf_on ? m.now + m.nbf_lee : m.now, b.has_nbf, b.nbf_int, b.nbf);
  for (int i = 0; i < 3; i++) {
    int kind = o.sk[i] % 16; std::string e = m.on[i] ? m.val[i] : POOLSTR[o.sv[i] % NPOOL];
    if (kind == 0) continue;
    b.has[i] = true;
    if (kind == 7) { p += std::string(",\"") + TN[i] + "\":" + SWRONG[o.sv[i] % 6]; b.klass += std::string(TN[i]) + "=wrongtype "; continue; }
    if (kind == 8) { p += std::string(",\"") + TN[i] + "\":\"" + "a\\u0000b\""; b.is_str[i] = true; b.s[i] = std::string("a\0b", 3); b.parse_ok = false; b.klass += std::string(TN[i]) + "=escaped-nul "; continue; }
    b.is_str[i] = true; b.s[i] = confuse(e, kind, o.sv[i]);
    J js(json_stringn(b.s[i].data(), b.s[i].size())); p += std::string(",\"") + TN[i] + "\":" + js.dump(JSON_ENCODE_ANY);
    if (m.on[i]) b.klass += std::string(TN[i]) + (b.s[i] == e ? "=equal " : "=confusion" + std::to_string(kind) + " ");
  }
  b.payload = p + "}";
  return b;
}

static bool model_accepts(const Model &m, const Built &b, std::string &why) {
  if (!b.parse_ok) { why = "payload-unparsable"; return false; }
  if (m.exp_on && b.has_exp) { if (!b.exp_int) { why = "exp-type"; return false; } if (!(b.exp > m.now - m.exp_lee)) { why = "exp"; return false; } }
  if (m.nbf_on && b.has_nbf) { if (!b.nbf_int) { why = "nbf-type"; return false; } if (!(b.nbf <= m.now + m.nbf_lee)) { why = "nbf"; return false; } }
  for (int i = 0; i < 3; i++) if (m.on[i]) { if (!b.has[i]) { why = std::string(TN[i]) + "-missing"; return false; } if (!b.is_str[i]) { why = std::string(TN[i]) + "-type"; return false; } if (b.s[i] != m.val[i]) { why = std::string(TN[i]) + "-differs"; return false; } }
  why = "ok"; return true;
}

static std::string ops_json(const std::vector<Op> &ops) {
  std::string s = "[";
  for (size_t i = 0; i < ops.size(); i++) {
    const Op &o = ops[i]; if (i) s += ",";
    s += "[" + std::to_string(o.kind) + "," + std::to_string(o.a) + "," + std::to_string(o.b) + "," + std::to_string(o.v) + "," + std::to_string(o.signed_) + "," + std::to_string(o.expk) + "," + std::to_string(o.expd) + "," + std::to_string(o.nbfk) + "," + std::to_string(o.nbfd);
    for (int k = 0; k < 3; k++) s += "," + std::to_string(o.sk[k]) + "," + std::to_string(o.sv[k]);
    s += "]";
  }
  return s + "]";
}
static std::vector<Op> ops_from_json(json_t *arr) {
  std::vector<Op> r; size_t i; json_t *e;
  json_array_foreach(arr, i, e) {
    Op o; auto g = [&](int k) { return (long long)json_integer_value(json_array_get(e, k)); };
    o.kind = (int)g(0); o.a = (int)g(1); o.b = (int)g(2); o.v = g(3); o.signed_ = (int)g(4); o.expk = (int)g(5); o.expd = g(6); o.nbfk = (int)g(7); o.nbfd = g(8);
    for (int k = 0; k < 3; k++) { o.sk[k] = (int)g(9 + 2 * k); o.sv[k] = (int)g(10 + 2 * k); }
    r.push_back(o);
  }
  return r;
}

static const std::vector<Op> *CURP = nullptr;
static std::string TRACE;  // human-readable trace of the current run
static const KeySpec *HSKEY; static LKey *HSLK;
static const long long LEEWAYS[] = {-1, -2, -100, LLONG_MIN, 0, 1, 5, 3600, 1LL << 40, (1LL << 40) - 1};
static const long long CLOCKS[] = {0, 1, 1700000000, 1LL << 41, 86400};
static const int BADFLAGS[] = {JWT_CLAIM_EXP, JWT_CLAIM_NBF, JWT_CLAIM_IAT, JWT_CLAIM_JTI, JWT_CLAIM_ISS | JWT_CLAIM_SUB, 0, 0x80};

// an application callback that only looks at the token (reads two claims) and leaves key, algorithm and token alone: claim checks are the same with it
static int observe_cb(jwt_t *jwt, jwt_config_t *) { jwt_value_t v = val_get(JWT_VALUE_STR, "iss"); (void)jwt_claim_get(jwt, &v); v = val_get(JWT_VALUE_INT, "exp"); (void)jwt_claim_get(jwt, &v); return 0; }
static int keyonly_cb(jwt_t *, jwt_config_t *cfg) { cfg->key = (const jwk_item_t *)cfg->ctx; return 0; }   // a key lookup: sets the key, leaves the algorithm to the key
// returns "" if the run agrees with the model; else the violated clause (signature suffix)
static std::string run_ops(const std::vector<Op> &ops, bool count) {
  Stats &st = stats(); CURP = &ops; TRACE.clear();
  Model m; set_now(m.now);
  jwt_checker_t *ck1 = jwt_checker_new();   // unsigned tokens, no key
  jwt_checker_t *ck2 = jwt_checker_new();   // HS256 tokens
  jwt_checker_setkey(ck2, JWT_ALG_HS256, HSLK->item);
  // the same key handed over the other two ways: the algorithm comes from the key's own alg attribute (setkey without algorithm); the key comes from a callback
  static LKey *HSATTR = nullptr; if (!HSATTR) { JwkOpts ao; ao.alg = "HS256"; ao.priv = true; HSATTR = new LKey(jwk_json(*HSKEY, ao)); }
  jwt_checker_t *ck3 = jwt_checker_new(); jwt_checker_setkey(ck3, JWT_ALG_NONE, HSATTR->item);
  jwt_checker_t *ck4 = jwt_checker_new(); jwt_checker_setcb(ck4, keyonly_cb, (void *)HSATTR->item);
  jwt_checker_t *cks[4] = {ck1, ck2, ck3, ck4};
  static int cbctx = 0; bool with_cb = !ops.empty() && ((ops[0].a ^ ops[0].b) & 1);   // every second sequence: both checkers have an observing callback
  if (with_cb) { for (auto c : cks) if (c != ck4) jwt_checker_setcb(c, observe_cb, &cbctx); if (count) st.cls("sequences-with-an-observing-callback"); TRACE += "observing-callback; "; }
  std::string bad; bool after_del = false;
  for (const Op &o : ops) {
    if (!bad.empty()) break;
    switch (o.kind % OP_N) {
    case OP_SET: { int t = o.a % 3; const char *s = POOLSTR[o.b % NPOOL]; for (auto c : cks) if (jwt_checker_claim_set(c, TY[t], s) != 0) bad = "config-return:claim_set"; m.on[t] = true; m.val[t] = s; m.undet[t] = false; TRACE += std::string("set ") + TN[t] + "=" + s + "; "; break; }
    case OP_SET_BAD: { if (o.b % 3 == 1) {   // an expected value that is not valid UTF-8 (Latin-1 text): refused; afterwards see Model::undet
        int t = o.a % 3; for (auto c : cks) if (jwt_checker_claim_set(c, TY[t], "M\xfcller GmbH") == 0) bad = "config-return:claim_set-invalid-utf8-accepted"; m.undet[t] = true; TRACE += std::string("set-refused(non-utf8) ") + TN[t] + "; "; break; }
      int f = BADFLAGS[o.a % 7]; for (auto c : cks) if (jwt_checker_claim_set(c, (jwt_claims_t)f, "x") == 0) bad = "config-return:claim_set-invalid-type-accepted"; if (o.b % 3 == 0) for (auto c : cks) if (jwt_checker_claim_set(c, TY[o.b % 3], NULL) == 0) bad = "config-return:claim_set-null-accepted"; TRACE += "set-bad; "; break; }
    case OP_DEL: { int t = o.a % 3; for (auto c : cks) if (jwt_checker_claim_del(c, TY[t]) != 0) bad = "config-return:claim_del"; m.on[t] = false; m.val[t].clear(); m.undet[t] = false; after_del = true; TRACE += std::string("del ") + TN[t] + "; "; break; }
    case OP_DEL_BAD: { int f = BADFLAGS[o.a % 7]; for (auto c : cks) if (jwt_checker_claim_del(c, (jwt_claims_t)f) == 0) bad = "config-return:claim_del-invalid-type-accepted"; TRACE += "del-bad; "; break; }
    case OP_LEEWAY: { long long secs = o.a % 12 < 10 ? LEEWAYS[o.a % 12] : (long long)((unsigned long long)o.v % (1ULL << 40)); int w = o.b % 2;
      for (auto c : cks) if (jwt_checker_time_leeway(c, w ? JWT_CLAIM_NBF : JWT_CLAIM_EXP, (time_t)secs) != 0) bad = "config-return:time_leeway";
      if (w) { m.nbf_on = secs >= 0; m.nbf_lee = secs; } else { m.exp_on = secs >= 0; m.exp_lee = secs; } TRACE += std::string("leeway ") + (w ? "nbf" : "exp") + "=" + std::to_string(secs) + "; "; break; }
    case OP_LEEWAY_BAD: { static const int F[] = {JWT_CLAIM_ISS, JWT_CLAIM_IAT, JWT_CLAIM_EXP | JWT_CLAIM_NBF, 0}; for (auto c : cks) if (jwt_checker_time_leeway(c, (jwt_claims_t)F[o.a % 4], 5) == 0) bad = "config-return:time_leeway-invalid-claim-accepted"; TRACE += "leeway-bad; "; break; }
    case OP_CLOCK: { m.now = o.a % 7 < 5 ? CLOCKS[o.a % 7] : (long long)((unsigned long long)o.v % (1ULL << 41)); set_now((time_t)m.now); TRACE += "now=" + std::to_string(m.now) + "; "; break; }
    case OP_VERIFY: {
      Built b = build_payload(m, o);
      int which = o.signed_ & 1; if (which) which = 1 + (int)((unsigned)(o.a ^ o.b) % 3);   // signed: explicit algorithm / algorithm from the key / key from a callback
      std::string tok = which ? ref_token(*HSKEY, JWT_ALG_HS256, "{\"alg\":\"HS256\",\"typ\":\"JWT\"}", b.payload) : ref_token(*HSKEY, JWT_ALG_NONE, "{\"alg\":\"none\"}", b.payload);
      // the harness's own idea of 'parses': jansson with the library's flags
      if (b.parse_ok && !J::parse(b.payload)) b.parse_ok = false;
      std::string why; bool want = model_accepts(m, b, why);
      int ret = jwt_checker_verify(cks[which], tok.c_str());
      TRACE += std::string("verify(") + (which == 0 ? "none" : which == 1 ? "HS256" : which == 2 ? "HS256,alg-from-key" : "HS256,key-from-callback") + " " + b.payload + ")=" + std::to_string(ret) + " model:" + why + "; ";
      if (count) {
        st.evaluations++; st.cls(ret == 0 ? "accept" : "reject"); st.cls("decided-by:" + why);
        bool nt = after_del || b.klass.find("@-1") != std::string::npos || b.klass.find("@0") != std::string::npos || b.klass.find("@1") != std::string::npos || b.klass.find("wrongtype") != std::string::npos || b.klass.find("confusion") != std::string::npos || b.klass.find("escaped-nul") != std::string::npos;
        if (nt) {
          uint64_t fp = fnv(b.payload); fp = mix(fp, m.now); fp = mix(fp, m.exp_on ? m.exp_lee : -7); fp = mix(fp, m.nbf_on ? m.nbf_lee : -7); for (int i = 0; i < 3; i++) fp = mix(fp, m.on[i] ? fnv(m.val[i]) : 3); fp = mix(fp, which);
          st.nontrivial(fp);
          size_t pos = 0; std::string k = b.klass; while ((pos = k.find(' ')) != std::string::npos) { std::string one = k.substr(0, pos); k = k.substr(pos + 1); if (one.find("abs") == std::string::npos && one.find("extreme") == std::string::npos) { size_t col = one.find(':'); st.cls("token:" + (one.find("wrongtype") != std::string::npos ? one.substr(0, col) : one)); } }
        }
        if (st.want_sample()) st.sample("{\"trace\":" + jstr(TRACE.substr(TRACE.size() > 600 ? TRACE.size() - 600 : 0)) + "}");
      }
      bool any_undet = m.undet[0] || m.undet[1] || m.undet[2];
      if (any_undet) {
        // judge without the undetermined claims; an acceptance is then only defensible if those claims still carry their old expected values
        Model m2 = m; for (int i = 0; i < 3; i++) if (m.undet[i]) m2.on[i] = false; std::string why2; bool want2 = model_accepts(m2, b, why2);
        if (ret == 0 && !want2) bad = "accepts-but-policy-rejects:" + why2;
        else if (ret == 0) for (int i = 0; i < 3; i++) if (m.undet[i] && m.on[i] && !(b.has[i] && b.is_str[i] && b.s[i] == m.val[i])) bad = std::string("accepts-but-policy-rejects:") + TN[i] + "-matches-nothing-ever-configured(after-a-refused-set)";
        if (count) st.cls("verify-with-a-claim-left-undetermined-by-a-refused-set");
      } else
      if ((ret == 0) != want) bad = std::string(ret == 0 ? "accepts-but-policy-rejects:" : "rejects-but-policy-accepts:") + why;
      break; }
    }
    // claim_get must mirror the model after every step
    if (bad.empty()) for (int i = 0; i < 3; i++) for (auto c : cks) {
      const char *g = jwt_checker_claim_get(c, TY[i]);
      if (m.undet[i]) continue;
      if (m.on[i] ? (!g || m.val[i] != g) : (g != nullptr)) bad = "claim-get-differs-from-configuration";
    }
  }
  jwt_checker_free(ck1); jwt_checker_free(ck2); jwt_checker_free(ck3); jwt_checker_free(ck4);
  return bad;
}

static std::string case_json(const std::vector<Op> &ops) { return "{\"ops\":" + ops_json(ops) + ",\"trace\":" + jstr(TRACE) + "}"; }

int main(int argc, char **argv) {
  Args a = parse_args(argc, argv);
  static KeySpec hk = oct_key("oct64", 64); HSKEY = &hk; JwkOpts jo; static LKey lk(jwk_json(hk, jo)); HSLK = &lk;
  cur_case() = [] { return CURP ? case_json(*CURP) : std::string("{}"); };
  Stats &st = stats();
  if (!a.replay.empty()) {
    J j = J::parse(read_file(a.replay)); if (!j) return 2;
    std::vector<Op> ops = ops_from_json(json_object_get(j.p, "ops"));
    std::string r = run_ops(ops, false);
    if (!r.empty()) fprintf(stderr, "replay: %s\n%s\n", r.c_str(), TRACE.c_str());
    return r.empty() ? 0 : 3;
  }
  uint64_t n = a.thorough() ? 120000 : 4000;
  if (a.kv.count("cases")) n = strtoull(a.kv["cases"].c_str(), 0, 10);
  std::string params = "seed=" + std::to_string(a.seed * 1000 + a.worker) + " max_success=" + std::to_string(n) + " max_size=100";
  setenv("RC_PARAMS", params.c_str(), 1);
  std::vector<Op> lastfail; std::string lastwhy, lasttrace;
  auto genOp = rc::gen::exec([]() {
    Op o; o.kind = *rc::gen::weightedElement<int>({{3, OP_SET}, {1, OP_SET_BAD}, {2, OP_DEL}, {1, OP_DEL_BAD}, {3, OP_LEEWAY}, {1, OP_LEEWAY_BAD}, {2, OP_CLOCK}, {8, OP_VERIFY}});
    o.a = *UNI(0, 1 << 16); o.b = *UNI(0, 1 << 16); o.v = *UNI<long long>(0, 1LL << 41);
    if (o.kind == OP_VERIFY) {
      o.signed_ = *UNI(0, 2);
      o.expk = *rc::gen::weightedElement<int>({{2, 0}, {8, 1}, {1, 2}, {2, 3}, {1, 4}}); o.nbfk = *rc::gen::weightedElement<int>({{3, 0}, {8, 1}, {1, 2}, {2, 3}, {1, 4}});
      o.expd = *UNI<long long>(0, 1LL << 42); o.nbfd = *UNI<long long>(0, 1LL << 42);
      if (o.expk == 4 && *UNI(0, 2)) o.expd = -o.expd; if (o.nbfk == 4 && *UNI(0, 2)) o.nbfd = -o.nbfd;
      for (int k = 0; k < 3; k++) { o.sk[k] = *rc::gen::weightedElement<int>({{2, 0}, {6, 1}, {1, 2}, {1, 3}, {1, 4}, {1, 5}, {1, 6}, {1, 7}, {1, 8}, {1, 9}, {1, 10}, {2, 11}, {1, 12}, {1, 13}, {1, 14}, {1, 15}}); o.sv[k] = *UNI(0, 1 << 10); }
    }
    return o;
  });
  bool ok = rc::check("C04: verdict == claim policy of the most recent configuration", [&]() {
    if (v::shrink_exhausted()) return;
    int len = *UNI(1, 18);
    std::vector<Op> ops = *rc::gen::container<std::vector<Op>>(len, genOp);
    std::string r = run_ops(ops, true);
    if (!r.empty()) {
      std::string sig = "C04:" + r;
      if (st.is_known(sig)) { st.known_hits[sig]++; return; }
      lastfail = ops; lastwhy = r; lasttrace = TRACE;
      v::fail_seen()++; RC_FAIL(r);
    }
  });
  if (!ok && !lastwhy.empty()) { TRACE = lasttrace; st.violation("C04:" + lastwhy, "verdict / return code / claim_get differs from the reference claim policy: " + lastwhy + " | " + lasttrace.substr(0, 700), case_json(lastfail)); }
  return finish();
}
