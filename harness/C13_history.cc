// C13 - no hidden state: a reused checker/builder must answer like a fresh, identically configured one
// (differential oracle over operation histories; rapidcheck).
#include <rapidcheck.h>
#include "vops.h"
#include "vcops.h"
using namespace v; using namespace vo;
template <typename T> static rc::Gen<T> UNI(T lo, T hi) { return rc::gen::resize(100, rc::gen::inRange<T>(lo, hi)); }

static std::string TRACE; static int CUR_KIND = 0, CUR_PROV = 0; static const std::vector<COp> *CURC = nullptr; static const std::vector<BOp> *CURB = nullptr;
struct HStats { int calls = 0, after_different_class = 0, msg_differs = 0; };

static std::string run_checker(int prov, const std::vector<COp> &ops, HStats *hs) {
  TRACE.clear(); CUR_KIND = 0; CUR_PROV = prov; CURC = &ops; set_provider(prov); set_now(1700000000);
  CExec x; int last_class = -1; bool cleared_since = true;
  for (size_t i = 0; i < ops.size(); i++) {
    bool isv = false; VRes r = capply(x, ops[i], &isv);
    TRACE += cop_str(ops[i]) + "=" + std::to_string(r.ret) + "; ";
    if ((ops[i].k % C_N) == C_ERRCLR) cleared_since = true;
    if (!isv) continue;
    // fresh, identically configured checker: replay every configuration call so far (no verifies, no error_clear)
    time_t now = now_ref(); set_now(1700000000);
    CExec f;
    for (size_t j = 0; j < i; j++) { int k = ops[j].k % C_N; if (k == C_VERIFY || k == C_ERRCLR) continue; capply(f, ops[j]); }
    set_now(now);
    VRes fr = capply(f, ops[i]);
    if (hs) { hs->calls++; int cls = r.ret ? 1 : 0; if (last_class >= 0 && last_class != cls && !cleared_since) hs->after_different_class++; if (r.msg != fr.msg) hs->msg_differs++; last_class = cls; cleared_since = false; }
    if ((r.ret != 0) != (fr.ret != 0)) return std::string("checker-verdict-differs-from-fresh:reused=") + (r.ret ? "reject" : "accept");
    if ((r.err != 0) != (fr.err != 0)) return "checker-error-flag-differs-from-fresh";
  }
  return "";
}

static std::string run_builder(int prov, const std::vector<BOp> &ops, HStats *hs) {
  TRACE.clear(); CUR_KIND = 1; CUR_PROV = prov; CURB = &ops; set_provider(prov); set_now(1700000000);
  BExec x; int last_class = -1; bool cleared_since = true;
  for (size_t i = 0; i < ops.size(); i++) {
    int k = ops[i].k % B_N;
    int count_before = x.cx.count;
    BResult r = apply(x, ops[i]);
    TRACE += bop_str(ops[i]) + (r.is_gen ? (r.null ? "=NULL; " : "=token; ") : "=" + std::to_string(r.code) + "; ");
    if (k == B_ERRCLR) cleared_since = true;
    if (k != B_GEN) continue;
    time_t now = now_ref(); set_now(1700000000);
    BExec f;
    for (size_t j = 0; j < i; j++) { int kj = ops[j].k % B_N; if (kj == B_GEN || kj == B_ERRCLR) continue; apply(f, ops[j]); }
    set_now(now); f.cx.count = count_before;   // the harness callback's own counter is not library state
    BResult fr = apply(f, ops[i]);
    if (hs) { hs->calls++; int cls = r.null ? 1 : 0; if (last_class >= 0 && last_class != cls && !cleared_since) hs->after_different_class++; if (r.msg != fr.msg) hs->msg_differs++; last_class = cls; cleared_since = false; }
    if (r.null != fr.null) return std::string("builder-result-differs-from-fresh:reused=") + (r.null ? "NULL" : "token");
    if ((r.err != 0) != (fr.err != 0)) return "builder-error-flag-differs-from-fresh";
    if (!r.null) {
      TokParts a = split_token(r.token), b = split_token(fr.token);
      if (a.signing_input != b.signing_input) return "builder-token-content-differs-from-fresh";
      std::string an; header_alg(a, an); const AlgInfo *ai = alg_by_name(an);
      bool deterministic = !ai || ai->kind == K_OCT || ai->kind == K_OKP || (ai->kind == K_RSA && !ai->pss);
      if (deterministic && r.token != fr.token) return "builder-deterministic-token-differs-from-fresh";
    }
  }
  return "";
}

static std::string cops_json(const std::vector<COp> &ops) { std::string s = "["; for (size_t i = 0; i < ops.size(); i++) s += (i ? "," : "") + std::string("[") + std::to_string(ops[i].k) + "," + std::to_string(ops[i].a) + "," + std::to_string(ops[i].b) + "]"; return s + "]"; }
static std::string case_json() {
  if (CUR_KIND == 0 && CURC) { std::string rd = "["; for (size_t i = 0; i < CURC->size(); i++) rd += (i ? "," : "") + jstr(cop_str((*CURC)[i])); rd += "]"; return "{\"kind\":\"checker\",\"prov\":" + std::to_string(CUR_PROV) + ",\"ops\":" + cops_json(*CURC) + ",\"readable\":" + rd + ",\"trace\":" + jstr(TRACE) + "}"; }
  if (CUR_KIND == 1 && CURB) return "{\"kind\":\"builder\",\"prov\":" + std::to_string(CUR_PROV) + ",\"ops\":" + bops_json(*CURB) + ",\"readable\":" + bops_readable(*CURB) + ",\"trace\":" + jstr(TRACE) + "}";
  return "{}";
}

int main(int argc, char **argv) {
  Args a = parse_args(argc, argv); vo::allow_noctx() = true;
  init_keys(false); init_tokens();
  cur_case() = [] { return case_json(); };
  Stats &st = stats();
  if (!a.replay.empty()) {
    J j = J::parse(read_file(a.replay)); if (!j) return 2;
    int prov = (int)json_integer_value(json_object_get(j.p, "prov")); std::string kind = json_string_value(json_object_get(j.p, "kind")); std::string r;
    if (kind == "builder") { std::vector<BOp> ops = bops_from_json(json_object_get(j.p, "ops")); r = run_builder(prov, ops, nullptr); }
    else { std::vector<COp> ops; size_t i; json_t *e; json_array_foreach(json_object_get(j.p, "ops"), i, e) ops.push_back({(int)json_integer_value(json_array_get(e, 0)), (int)json_integer_value(json_array_get(e, 1)), (int)json_integer_value(json_array_get(e, 2))}); r = run_checker(prov, ops, nullptr); }
    if (!r.empty()) fprintf(stderr, "replay: %s | %s\n", r.c_str(), TRACE.c_str());
    return r.empty() ? 0 : 3;
  }
  uint64_t n = a.thorough() ? 60000 : 1500;
  std::string params = "seed=" + std::to_string(a.seed * 1000 + a.worker) + " max_success=" + std::to_string(n) + " max_size=100";
  setenv("RC_PARAMS", params.c_str(), 1);
  std::string lastwhy, lastcase;
  auto genC = rc::gen::exec([]() { COp o; o.k = *rc::gen::weightedElement<int>({{3, C_SETKEY}, {2, C_CLAIM_SET}, {1, C_CLAIM_DEL}, {2, C_LEEWAY}, {2, C_SETCB}, {1, C_CLOCK}, {9, C_VERIFY}, {2, C_ERRCLR}}); o.a = *UNI(0, 1 << 12); o.b = *UNI(0, 1 << 12); return o; });
  auto genB = rc::gen::exec([]() { BOp o; o.k = *rc::gen::weightedElement<int>({{2, B_HSET}, {1, B_HDEL}, {3, B_CSET}, {1, B_CDEL}, {1, B_IAT}, {2, B_OFFSET}, {4, B_SETKEY}, {3, B_SETCB}, {1, B_CLOCK}, {8, B_GEN}, {2, B_ERRCLR}}); o.a = *UNI(0, 1 << 12); o.b = *UNI(0, 1 << 12); o.c = *UNI(0, 4); return o; });
  bool ok = rc::check("C13: reused object == fresh object", [&]() {
    if (v::shrink_exhausted()) return;
    int prov = *UNI(0, 2); int len = *UNI(1, 41); bool builder = *UNI(0, 2) == 1;
    HStats hs; std::string r; std::vector<BOp> bops; std::vector<COp> cops;
    if (builder) { bops = *rc::gen::container<std::vector<BOp>>(len, genB); r = run_builder(prov, bops, &hs); if (hs.after_different_class) { uint64_t fp = 1; for (auto &o : bops) fp = mix(fp, fnv(bop_str(o))); st.nontrivial(fp); } }
    else { cops = *rc::gen::container<std::vector<COp>>(len, genC); r = run_checker(prov, cops, &hs); if (hs.after_different_class) { uint64_t fp = 2; for (auto &o : cops) fp = mix(fp, fnv(cop_str(o))); st.nontrivial(fp); } }
    st.evaluations++; st.cls(builder ? "builder-sequences" : "checker-sequences"); st.cls(builder ? "generate-calls-compared" : "verify-calls-compared", hs.calls);
    st.cls("calls-after-different-verdict-class-without-error_clear", hs.after_different_class); st.cls("message-text-differs-from-fresh(not-asserted)", hs.msg_differs);
    if (st.want_sample()) st.sample(case_json());
    if (!r.empty()) { std::string sig = "C13:" + r; if (st.is_known(sig)) { st.known_hits[sig]++; return; } lastwhy = r; lastcase = case_json(); CURC = nullptr; CURB = nullptr; v::fail_seen()++; RC_FAIL(r); }
    CURC = nullptr; CURB = nullptr;
  });
  if (!ok && !lastwhy.empty()) st.violation("C13:" + lastwhy, "reused object answers differently from a fresh identically configured object", lastcase);
  return finish();
}
