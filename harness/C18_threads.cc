// C18 - separate builders/checkers sharing one keyring are safe to use concurrently.
// Stress under ThreadSanitizer (and ASan) with seeded start skew; per-thread transcripts must equal the
// transcripts of the same scripts run sequentially beforehand.
#include "vlib.h"
#include "vkeys.h"
#include <atomic>
#include <thread>
#include <pthread.h>
#include <unistd.h>
#include <chrono>
using namespace v;

struct KeyUse { const KeySpec *ks; const jwk_item_t *priv, *pub; jwt_alg_t alg; std::string kid_priv, kid_pub; };
static jwk_set_t *G_SET = nullptr;
static std::vector<KeyUse> KU;
static std::vector<std::string> PRETOK_VALID, PRETOK_BAD, PRETOK_EXPIRED;   // per key, made before threads start

enum { OP_GEN, OP_VERIFY_VALID, OP_VERIFY_BAD, OP_VERIFY_EXPIRED };
struct Op { int kind, key, n; };
struct Script { std::vector<Op> ops; uint64_t skew_ns; int spin; bool cb = false; };   // cb: this thread's builder and checker have a callback installed (it reads the token and takes a little while)
static int c18_cb(jwt_t *jwt, jwt_config_t *cfg) { jwt_value_t v = val_get(JWT_VALUE_INT, "n"); (void)jwt_claim_get(jwt, &v); for (volatile int i = 0; i < (cfg->ctx ? *(int *)cfg->ctx : 0); i++) {} return 0; }

static std::atomic<int> g_in_call[32];
static std::atomic<long> g_overlaps{0}, g_calls{0};

static std::string norm(const KeySpec &k, jwt_alg_t alg, const char *tok) {
  if (!tok) return "NULL";
  const AlgInfo *ai = alg_info(alg); bool randomized = ai && (ai->kind == K_EC || ai->pss);
  std::string t(tok); if (!randomized) return t;
  TokParts tp = split_token(t); return tp.signing_input + ".<" + (ref_valid(k, t) ? "valid" : "INVALID") + ">";
}

static std::vector<std::string> run_script(const Script &s, bool concurrent) {
  std::vector<std::string> tr;
  jwt_builder_t *b = jwt_builder_new(); jwt_checker_t *c = jwt_checker_new(); int cbspin = 3000;
  if (s.cb) { jwt_builder_setcb(b, c18_cb, &cbspin); jwt_checker_setcb(c, c18_cb, &cbspin); }
  if (concurrent) { auto t0 = std::chrono::steady_clock::now(); while ((uint64_t)std::chrono::duration_cast<std::chrono::nanoseconds>(std::chrono::steady_clock::now() - t0).count() < s.skew_ns) {} }
  for (const Op &o : s.ops) {
    const KeyUse &k = KU[o.key];
    if (concurrent) { int others = g_in_call[o.key].fetch_add(1); if (others > 0) g_overlaps++; g_calls++; }
    // half of the calls find their key in the shared keyring by kid (a read-only operation on the shared set)
    const jwk_item_t *kpriv = k.priv, *kpub = k.pub;
    if (o.n & 1) { kpriv = jwks_find_bykid(G_SET, k.kid_priv.c_str()); kpub = jwks_find_bykid(G_SET, k.kid_pub.c_str()); (void)jwks_item_count(G_SET); (void)jwks_item_get(G_SET, (size_t)o.key); }
    if (o.kind == OP_GEN) {
      jwt_builder_setkey(b, k.alg, kpriv);
      jwt_value_t v = val_int("n", o.n, 1); jwt_builder_claim_set(b, &v); jwt_builder_time_offset(b, JWT_CLAIM_EXP, 600);
      char *t = jwt_builder_generate(b); tr.push_back("gen:" + norm(*k.ks, k.alg, t)); free(t);
    } else {
      jwt_checker_setkey(c, k.alg, kpub);
      const std::string &tok = o.kind == OP_VERIFY_VALID ? PRETOK_VALID[o.key] : o.kind == OP_VERIFY_BAD ? PRETOK_BAD[o.key] : PRETOK_EXPIRED[o.key];
      int r = jwt_checker_verify(c, tok.c_str()); tr.push_back(std::string("verify") + std::to_string(o.kind) + ":" + std::to_string(r ? 1 : 0) + ":" + (jwt_checker_error(c) ? "flag" : "noflag"));
    }
    if (concurrent) { g_in_call[o.key]--; for (volatile int i = 0; i < s.spin; i++) {} }
  }
  jwt_builder_free(b); jwt_checker_free(c);
  return tr;
}

// ---- threads with a small stack (pthread_attr_setstacksize) and long tokens: a worker thread is not the main thread; what the calls
// need on the stack must not depend on the length of the token. The same calls are first made one after another on the main thread.
static std::vector<std::string> BIG_VALID, BIG_BAD; static std::vector<int> BIG_KEY; static std::vector<size_t> BIG_N;
static std::vector<std::string> run_big(size_t i) {
  std::vector<std::string> tr; const KeyUse &k = KU[BIG_KEY[i]];
  jwt_builder_t *b = jwt_builder_new(); jwt_checker_t *c = jwt_checker_new();
  jwt_checker_setkey(c, k.alg, k.pub);
  int r = jwt_checker_verify(c, BIG_VALID[i].c_str()); tr.push_back("verify-valid:" + std::to_string(r ? 1 : 0));
  r = jwt_checker_verify(c, BIG_BAD[i].c_str()); tr.push_back("verify-bad:" + std::to_string(r ? 1 : 0));
  jwt_builder_setkey(b, k.alg, k.priv); std::string big(BIG_N[i], 'x'); jwt_value_t v = val_str("big", big.c_str(), 1); jwt_builder_claim_set(b, &v); jwt_builder_enable_iat(b, 0);
  char *t = jwt_builder_generate(b); tr.push_back("gen:" + norm(*k.ks, k.alg, t)); free(t);
  jwt_builder_free(b); jwt_checker_free(c);
  return tr;
}
struct SsArg { size_t i; std::vector<std::string> got; };
static void *ss_thread(void *p) { SsArg *x = (SsArg *)p; x->got = run_big(x->i); return nullptr; }
static size_t SS_LAST = 0;
static size_t small_stack_bytes() { const char *e = getenv("VERIF_C18_STACK"); return e ? (size_t)atol(e) : 64 * 1024; }
// returns "" or a description of the first difference; a thread that overruns its stack kills the process (the case is in <out>.cur)
static std::string small_stack_round(int prov, size_t first, size_t step) {
  for (size_t i0 = first; i0 < BIG_VALID.size(); i0 += step) {
    SS_LAST = i0; size_t nt = 3; std::vector<SsArg> args(nt); std::vector<std::vector<std::string>> expect(nt);
    for (size_t t = 0; t < nt; t++) { args[t].i = (i0 + t * 7) % BIG_VALID.size(); expect[t] = run_big(args[t].i); }
    { FILE *f = fopen((stats().out_path + ".cur").c_str(), "w"); if (f) { std::string cj = with_env("{\"kind\":\"small-stack\",\"prov\":" + std::to_string(prov) + ",\"index\":" + std::to_string(i0) + ",\"stack_bytes\":" + std::to_string(small_stack_bytes()) + ",\"claim_bytes\":" + std::to_string(BIG_N[i0]) + ",\"alg\":" + jstr(jwt_alg_str(KU[BIG_KEY[i0]].alg)) + "}"); fputs(cj.c_str(), f); fclose(f); } }
    pthread_attr_t at; pthread_attr_init(&at); pthread_attr_setstacksize(&at, small_stack_bytes());
    std::vector<pthread_t> th(nt); for (size_t t = 0; t < nt; t++) if (pthread_create(&th[t], &at, ss_thread, &args[t])) { pthread_attr_destroy(&at); return ""; }
    for (size_t t = 0; t < nt; t++) pthread_join(th[t], nullptr);
    pthread_attr_destroy(&at); unlink((stats().out_path + ".cur").c_str());
    stats().evaluations++; stats().cls("small-stack-rounds"); stats().nontrivial(mix(mix(0x55, prov), i0));
    for (size_t t = 0; t < nt; t++) if (args[t].got != expect[t]) return "index " + std::to_string(args[t].i) + ": " + (args[t].got.empty() ? "" : args[t].got[0]) + " vs " + (expect[t].empty() ? "" : expect[t][0]);
  }
  return "";
}

int main(int argc, char **argv) {
  Args a = parse_args(argc, argv);
  // replay of a transcript mismatch: the same provider, seed, worker and rounds up to the one that differed (schedules are sampled
  // again; a difference that depends on the provider, the keys or the first-call state shows again, a rare interleaving may not)
  int replay_rounds = -1, replay_small = -1;
  if (!a.replay.empty()) { J j = J::parse(read_file(a.replay)); if (!j || (!json_object_get(j.p, "round") && !json_object_get(j.p, "kind"))) return 0;
    if (json_object_get(j.p, "seed")) a.seed = (uint64_t)json_integer_value(json_object_get(j.p, "seed")); if (json_object_get(j.p, "worker")) a.worker = (int)json_integer_value(json_object_get(j.p, "worker")); a.kv["prov"] = std::to_string((int)json_integer_value(json_object_get(j.p, "prov")));
    if (json_object_get(j.p, "kind")) { replay_small = (int)json_integer_value(json_object_get(j.p, "index")); a.kv["prov"] = std::to_string((int)json_integer_value(json_object_get(j.p, "prov"))); }
    else replay_rounds = (int)json_integer_value(json_object_get(j.p, "round")) + 1; if (json_is_true(json_object_get(j.p, "thorough"))) a.tier = "thorough"; }
  int prov = a.kv.count("prov") ? atoi(a.kv["prov"].c_str()) : a.worker % 2;
  set_provider(prov); set_now(1700000000);
  Pool pool = standard_pool();
  // one shared, read-only keyring with a key of every type
  struct KD { const char *name; jwt_alg_t alg; };
  std::vector<KD> kds = {{"oct64", JWT_ALG_HS256}, {"oct64", JWT_ALG_HS512}, {"rsa_2048", JWT_ALG_RS256}, {"rsa_2048", JWT_ALG_PS256}, {"ec_p256", JWT_ALG_ES256}, {"ec_p384", JWT_ALG_ES384}, {"ec_p521", JWT_ALG_ES512}, {"ed25519", JWT_ALG_EDDSA}, {"ed448", JWT_ALG_EDDSA},
                         {"oct48", JWT_ALG_HS384}, {"rsa_2048", JWT_ALG_RS384}, {"rsa_2048", JWT_ALG_PS512}, {"rsa_3072", JWT_ALG_RS512}};
  // also under GnuTLS, which has no secp256k1: the calls then fail - identically one after another and concurrently; whatever the library
  // does to serve (or refuse) them must not disturb the other threads
  kds.push_back({"ec_k256", JWT_ALG_ES256K});
  std::string doc = "{\"keys\":[";
  for (size_t i = 0; i < kds.size(); i++) { JwkOpts o; o.priv = true; o.kid = "priv" + std::to_string(i); doc += (i ? "," : "") + jwk_json(pool.get(kds[i].name), o); o.priv = false; o.kid = "pub" + std::to_string(i); doc += "," + jwk_json(pool.get(kds[i].name), o); }
  doc += "]}";
  jwk_set_t *set = jwks_create(doc.c_str());
  if (!set || jwks_error_any(set)) { fprintf(stderr, "keyring import failed\n"); return 2; }
  G_SET = set;
  for (size_t i = 0; i < kds.size(); i++) { const KeySpec &ks = pool.get(kds[i].name); KU.push_back({&ks, jwks_find_bykid(set, ("priv" + std::to_string(i)).c_str()), ks.kind == K_OCT ? jwks_find_bykid(set, ("priv" + std::to_string(i)).c_str()) : jwks_find_bykid(set, ("pub" + std::to_string(i)).c_str()), kds[i].alg, "priv" + std::to_string(i), (ks.kind == K_OCT ? "priv" : "pub") + std::to_string(i)});
    std::string h = std::string("{\"alg\":\"") + jwt_alg_str(kds[i].alg) + "\",\"typ\":\"JWT\"}";
    std::string good = ref_token(ks, kds[i].alg, h, "{\"sub\":\"t\",\"exp\":1800000000}"); PRETOK_VALID.push_back(good);
    std::string bad = good; bad[bad.size() - 3] = bad[bad.size() - 3] == 'A' ? 'B' : 'A'; PRETOK_BAD.push_back(bad);
    PRETOK_EXPIRED.push_back(ref_token(ks, kds[i].alg, h, "{\"sub\":\"t\",\"exp\":1600000000}")); }
  Stats &st = stats();
  // long tokens for the small-stack part: payload segments of about 4k, 16k, 60k, 64k-1, 64k+, 128k, 1M characters, for every key
  { static const size_t NS[] = {3000, 12200, 45000, 49100, 49200, 98300, 786000};
    for (size_t ki = 0; ki < KU.size(); ki++) for (size_t n : NS) { if (n > 100000 && !(a.thorough() && ki < 3)) continue; if (prov == 1 && KU[ki].alg == JWT_ALG_ES256K) continue;
      std::string h = std::string("{\"alg\":\"") + jwt_alg_str(KU[ki].alg) + "\",\"typ\":\"JWT\"}", good = ref_token(*KU[ki].ks, KU[ki].alg, h, "{\"sub\":\"t\",\"exp\":1800000000,\"big\":\"" + std::string(n, 'y') + "\"}");
      std::string bad = good; bad[bad.size() - 3] = bad[bad.size() - 3] == 'A' ? 'B' : 'A'; BIG_VALID.push_back(good); BIG_BAD.push_back(bad); BIG_KEY.push_back((int)ki); BIG_N.push_back(n); } }
  if (replay_small >= 0) { std::string r = small_stack_round(prov, (size_t)replay_small, BIG_VALID.size()); if (!r.empty()) fprintf(stderr, "replay: %s\n", r.c_str()); jwks_free(set); return r.empty() ? 0 : 3; }
  int rounds = a.thorough() ? 400 : 5; if (a.kv.count("rounds")) rounds = atoi(a.kv["rounds"].c_str());
  if (replay_rounds > 0) rounds = std::max(replay_rounds, 3);
  int opsper = a.thorough() ? 40 : 24;
  static const int TC[] = {2, 4, 8, 16};
  for (int round = 0; round < rounds && st.violations.empty(); round++) {
    if (replay_rounds > 0 && round > 2 && round != replay_rounds - 1) continue;   // replay: the first rounds (cold start) and the one that differed
    Rng rng(a.seed * 7919 + a.worker * 104729 + round);
    int nt = TC[(round + a.worker / 2) % 4];
    std::vector<Script> scripts(nt);
    // every second round is "hot": all threads hammer ONE key with distinct claims (windows of a few instructions,
    // e.g. a non-reentrant mode of a crypto call, need many overlapping calls of the same kind to show)
    int hotkey = (round & 1) ? (int)((round / 2 + a.worker / 2) % KU.size()) : -1;
    if (hotkey >= 0) { bool cheap = KU[hotkey].ks->kind == K_OCT; int n = cheap ? (a.thorough() ? 3000 : 600) : opsper;
      for (size_t t = 0; t < scripts.size(); t++) { auto &s = scripts[t]; s.skew_ns = rng.below(20000); s.spin = 0; for (int i = 0; i < n; i++) { Op o; o.kind = (i & 1) ? OP_VERIFY_VALID : OP_GEN; o.key = hotkey; o.n = (int)(t * 100000 + i); s.ops.push_back(o); } }
      st.cls("hot-rounds"); }
    else for (auto &s : scripts) { s.skew_ns = rng.below(200000); s.spin = (int)rng.below(2000); for (int i = 0; i < opsper; i++) { Op o; o.kind = (int)rng.below(4); o.key = (int)rng.below(KU.size()); if (rng.chance(1, 3)) o.key = (int)(round % KU.size()); o.n = (int)rng.below(1000); s.ops.push_back(o); } }
    { int ncb = 0; for (size_t t = 0; t < scripts.size(); t++) { scripts[t].cb = (round % 3 == 2) || ((t + round) & 1); ncb += scripts[t].cb; } if (ncb >= 2) st.cls("rounds-with-callbacks-on-two-or-more-threads"); }
    std::vector<std::vector<std::string>> expect(nt), got(nt);
    // round 0 is COLD: the very first signing/verifying calls of the process are the concurrent ones (lazily initialised
    // state - a one-time table, a cached handle - is only ever raced in that window); its sequential reference run comes afterwards
    bool cold = round == 0;
    if (cold) { st.cls("cold-rounds(first-library-calls-of-the-process-are-concurrent)"); for (auto &sc : scripts) sc.skew_ns = rng.below(3000); }
    if (!cold) for (int t = 0; t < nt; t++) expect[t] = run_script(scripts[t], false);
    long ov0 = g_overlaps.load();
    std::vector<std::thread> th;
    for (int t = 0; t < nt; t++) th.emplace_back([&, t] { got[t] = run_script(scripts[t], true); });
    for (auto &x : th) x.join();
    long ov = g_overlaps.load() - ov0;
    if (cold) for (int t = 0; t < nt; t++) expect[t] = run_script(scripts[t], false);
    st.evaluations++; st.cls("rounds"); st.cls("threads=" + std::to_string(nt)); st.cls("calls-overlapping-on-the-same-key", ov);
    if (ov > 0) st.nontrivial(mix(mix(a.seed, a.worker), mix(round, prov)));
    for (int t = 0; t < nt; t++) if (got[t] != expect[t]) {
      size_t i = 0; while (i < got[t].size() && i < expect[t].size() && got[t][i] == expect[t][i]) i++;
      std::string rj = "{\"prov\":" + std::to_string(prov) + ",\"round\":" + std::to_string(round) + ",\"worker\":" + std::to_string(a.worker) + ",\"seed\":" + std::to_string(a.seed) + ",\"thorough\":" + (a.thorough() ? "true" : "false") + ",\"threads\":" + std::to_string(nt) + ",\"thread\":" + std::to_string(t) + ",\"step\":" + std::to_string(i) + ",\"concurrent\":" + jstr(i < got[t].size() ? got[t][i].substr(0, 300) : "") + ",\"sequential\":" + jstr(i < expect[t].size() ? expect[t][i].substr(0, 300) : "") + "}";
      st.violation("C18:concurrent-result-differs-from-sequential:" + std::string(got[t].size() > i ? got[t][i].substr(0, got[t][i].find(':')) : "len"), "a thread obtained a different verdict/token than the same calls made one after another", rj);
      break;
    }
    if (st.want_sample()) st.sample("{\"prov\":" + std::to_string(prov) + ",\"threads\":" + std::to_string(nt) + ",\"ops_per_thread\":" + std::to_string(opsper) + ",\"overlapping_calls\":" + std::to_string(ov) + ",\"first_ops\":" + jstr(expect[0].empty() ? "" : expect[0][0].substr(0, 80)) + "}");
  }
  if (st.violations.empty() && replay_rounds < 0) {   // every worker takes its share of the long tokens
    std::string r = small_stack_round(prov, (size_t)(a.worker / 2) % BIG_VALID.size(), (size_t)std::max(1, a.nworkers / 2));
    if (!r.empty()) st.violation("C18:small-stack-thread-result-differs-from-sequential", "threads with a " + std::to_string(small_stack_bytes()) + "-byte stack obtained a different result than the same calls on the main thread: " + r, "{\"kind\":\"small-stack\",\"prov\":" + std::to_string(prov) + ",\"index\":" + std::to_string(SS_LAST) + "}");
  }
  st.extra["provider"] = jstr(prov_name(prov)); st.extra["small_stack_bytes"] = std::to_string(small_stack_bytes()); st.extra["library_calls_made_concurrently"] = std::to_string(g_calls.load());
  jwks_free(set);
  return finish();
}
