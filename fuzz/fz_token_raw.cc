// C06 raw: [cfg_lo][cfg_hi] + token text (cut at first NUL)
#include "fz_token.h"
extern "C" int LLVMFuzzerInitialize(int *, char ***) { init_cfgs(); emit_corpus(0); return 0; }
extern "C" int LLVMFuzzerTestOneInput(const uint8_t *data, size_t size) {
  init_cfgs();
  if (size < 2) return 0;
  size_t ci = data[0] | (data[1] << 8);
  std::string tok((const char *)data + 2, size - 2);
  tok = tok.substr(0, tok.find('\0'));
  verify_with_oracle(ci, tok);
  return 0;
}
