ENGINES = [
    {"name": "check.py", "path": "/verif/check.py", "serves_properties": [], "kind_free_text": "driver: rebuilds libjwt from /repo's working tree (ASan+UBSan / fuzzer / TSan flavors), runs harness workers, merges stats, writes evidence, replays and classifies violations against known-findings.jsonl"},
    {"name": "rapidcheck", "path": "/verif/harness", "serves_properties": ["C01"], "kind_free_text": "rapidcheck generators with shrinking; RC_PARAMS seed derived from VERIF_SEED and worker index; one process per worker"},
    {"name": "libfuzzer", "path": "/verif/fuzz", "serves_properties": ["C06", "C07"], "kind_free_text": "libFuzzer targets built with -fsanitize=fuzzer,address,undefined against a fuzzer-no-link build of libjwt; 16 independent processes, corpus copied from /verif/corpus"},
    {"name": "enum", "path": "/verif/harness", "serves_properties": ["C02", "C03", "C11"], "kind_free_text": "exhaustive enumerators over the finite domains the properties name, same oracle code as the random mode"},
]
NOTES = "Technique family: property-based testing and fuzzing (rapidcheck, libFuzzer, exhaustive enumeration, fork-per-fault allocation failure injection, TSan stress). See DESIGN.md."
NOT_APPLICABLE = {}
CLAIMS = {
    "C01": dict(engine="rapidcheck", level="exploration", design_ref="DESIGN.md section 4 C01",
                technique="property-based testing (rapidcheck): mutation-program generator over validly signed tokens, differential against an independent verifier on raw OpenSSL EVP",
                text="Generated forgeries (22 mutation operators incl. ECDSA/EdDSA/RSA specials, re-targeted signatures, header alg swaps with attacker-computable HMAC keys) for every key type x admissible alg x checker config x provider; the checker may return 0 only if the independent verifier accepts. Exploration: absence of a forgery is not shown, cryptanalytic forgeries are out of reach.",
                note="trusts OpenSSL primitives used by the reference verifier and the fixture key pool; PSS verified with any salt length, ECDSA as fixed-width r||s"),
    "C02": dict(engine="enum", level="exploration", design_ref="DESIGN.md section 4 C02",
                technique="exhaustive enumeration of the configuration matrix (explicit alg x key x key alg attr x header alg x route x signature x provider) against a model of the statement and an independent verifier",
                text="The finite matrix named by the property is enumerated completely (about 570k verify/generate cells per run) with attacker-computable signatures (empty-key / public-PEM / raw-public-key HMAC, own key pair, real key under another alg); verdicts, setkey results and generated tokens are compared with a model of the documented table and the pinning rule. Exhaustive over the stated cell space, one key per type in quick.",
                note="model of the statement in C02_matrix.cc; reference verifier on raw OpenSSL EVP; GnuTLS cells carry no positive assertion for ES256K/secp256k1"),
    "C03": dict(engine="enum", level="exploration", design_ref="DESIGN.md section 4 C03",
                technique="exhaustive enumeration of checker/builder configurations x token shapes with a two-sided oracle for key-less checkers",
                text="All configurations (no key, key with/without alg attr, explicit alg, callback selecting key/alg/both) x header alg variants x signature shapes x 2-5 segment shapes are enumerated; keyed checkers must never accept empty signatures or alg none, key-less checkers accept exactly alg none with an empty third segment, builders with a key never emit unsigned tokens.",
                note="same model and reference verifier as C02"),
    "C06": dict(engine="libfuzzer", level="exploration", design_ref="DESIGN.md section 4 C06",
                technique="coverage-guided fuzzing (libFuzzer, ASan+UBSan+LSan) of raw token text and of structure-aware (header, payload, signature) triples, semantic oracle inside the target",
                text="Two in-process targets over 34 checker configurations on both providers; every iteration resets provider/allocator/clock; a verdict 0 must satisfy the structural clauses of the statement and (keyed) the independent verifier; leaks are detected per iteration. Exploration with measured reach (share of inputs passing dot scans, header base64, JSON, claims, provider verify).",
                note="sanitizer runtimes and libFuzzer trusted; -seed pins a campaign only approximately; the nettle Ed448 last-byte leniency is excluded by construction and counted"),
    "C07": dict(engine="libfuzzer", level="exploration", design_ref="DESIGN.md section 4 C07",
                technique="coverage-guided fuzzing (libFuzzer, ASan+UBSan+LSan) of raw JWKS bytes and of a member-by-member JWK shape generator through all load entry points, keyring well-formedness oracle inside the target",
                text="Raw bytes (seeded with the repository's key files) and generated JWK shapes (every member absent / wrong JSON type / empty / non-base64 / wrong length / correct) through jwks_create*, jwks_load*, fromfp and fromfile on both providers; oracle: set error iff not JSON, item count and order follow the document, each item is errored-with-message or a usable key (material checked, then actually used by a checker and builder).",
                note="jansson decides what is JSON; sanitizer runtimes and libFuzzer trusted; keys-member-not-an-array documents are checked for memory safety and item well-formedness only"),
    "C11": dict(engine="enum", level="exploration", design_ref="DESIGN.md section 4 C11",
                technique="exhaustive enumeration of small inputs + seeded random buffers against an independent RFC 4648 codec, under ASan/UBSan",
                text="Every byte string of length 0-3 is encoded and round-tripped, every 1-4 character string over a class-representative alphabet (quick) or all 255 NUL-free bytes (thorough) is decoded and compared with an independent codec and with the reject rules of the statement; buffer arithmetic is exercised for every length 0-4096 and random lengths to 64 KiB under ASan. Exhaustive for the enumerated domains, sampled beyond.",
                note="trusts the reference codec in vlib.h and the sanitizer runtime; inputs the statement leaves open may be rejected or decoded leniently"),
}
