// C01 - no token accepted without a valid signature: mutation-based forgeries (rapidcheck) against an
// independent verifier (vkeys.h ref_valid).
#include <rapidcheck.h>
#include "vlib.h"
#include "vkeys.h"
#include "vmut.h"
using namespace v;

struct Case { int prov, key, algi, cfg, pay; std::vector<Mut> muts; std::string token; };
template <typename T> static rc::Gen<T> UNI(T lo, T hi) { return rc::gen::resize(100, rc::gen::inRange<T>(lo, hi)); }
static Case CUR;
static std::string case_json(const Case &c) {
  std::string m = "[";
  for (size_t i = 0; i < c.muts.size(); i++) { m += (i ? "," : ""); m += "[\"" + std::string(MN[c.muts[i].kind]) + "\"," + std::to_string(c.muts[i].a) + "," + std::to_string(c.muts[i].b) + "," + std::to_string(c.muts[i].c) + "]"; }
  m += "]";
  const KeySpec &k = *KEYS[c.key];
  return "{\"provider\":\"" + std::string(prov_name(c.prov)) + "\",\"prov\":" + std::to_string(c.prov) + ",\"key\":\"" + k.name + "\",\"alg\":\"" + ALGS[c.algi].name + "\",\"cfg\":" + std::to_string(c.cfg) +
         ",\"pay\":" + std::to_string(c.pay) + ",\"mutations\":" + m + ",\"token\":" + jstr(c.token) + "}";
}

struct CbCtx { const jwk_item_t *key; jwt_alg_t alg; };
static int cb_fn(jwt_t *, jwt_config_t *c) { CbCtx *x = (CbCtx *)c->ctx; c->key = x->key; c->alg = x->alg; return 0; }

// returns "" when the property holds for this case, else the violated clause
static std::string run_case(const Case &c, bool count) {
  Stats &st = stats();
  const KeySpec &k = *KEYS[c.key]; jwt_alg_t alg = ALGS[c.algi].alg;
  CUR = c;
  set_provider(c.prov);
  jwt_checker_t *ch = jwt_checker_new();
  CbCtx cx{nullptr, alg};
  int sr = 0;
  switch (c.cfg) {
  case 0: sr = jwt_checker_setkey(ch, alg, lkey(k, "").item); break;                       // explicit alg only
  case 1: sr = jwt_checker_setkey(ch, JWT_ALG_NONE, lkey(k, jwt_alg_str(alg)).item); break; // key alg only
  case 2: sr = jwt_checker_setkey(ch, alg, lkey(k, jwt_alg_str(alg)).item); break;          // both
  case 3: cx.key = lkey(k, "").item; sr = jwt_checker_setcb(ch, cb_fn, &cx); break;         // via callback
  }
  if (sr) { jwt_checker_free(ch); return "setup-failed"; }
  int ret = jwt_checker_verify(ch, c.token.c_str());
  std::string msg = jwt_checker_error_msg(ch) ? jwt_checker_error_msg(ch) : "";
  jwt_checker_free(ch);
  std::string why; bool valid = ref_valid(k, c.token, &why);
  bool reached_crypto = ret == 0 || msg.find("failed verification") != std::string::npos || msg.find("JWT[") == 0 || msg.find("decoding signature") != std::string::npos;
  if (count) {
    st.evaluations++;
    st.cls(ret == 0 ? "accepted" : reached_crypto ? "rejected-by-crypto-layer" : msg.find("alg") != std::string::npos || msg.find("Alg") != std::string::npos ? "rejected-by-policy" : msg.find("arsing") != std::string::npos || msg.find("dot") != std::string::npos ? "rejected-by-parser" : "rejected-other");
    for (auto &m : c.muts) st.cls(std::string("mut:") + MN[m.kind]);
    if (c.muts.empty()) st.cls("unmutated-control");
    if (reached_crypto) { uint64_t fp = mix(fnv(c.token), mix(c.prov, mix(c.key, mix(c.algi, c.cfg)))); st.nontrivial(fp); }
    if (st.want_sample()) st.sample(case_json(c));
  }
  if (ret == 0 && !valid) {
    // refine the cause so that a known finding is identified by what exactly fails
    TokParts tp = split_token(c.token);
    if (k.kind == K_OKP && k.bits == 456 && tp.ok && tp.s_ok && tp.sdec.size() == 114 && tp.sdec[113] != 0) {
      std::string z = tp.sdec; z[113] = 0;
      if (ref_verify(k, alg, tp.signing_input, z)) why = "ed448-signature-valid-except-nonzero-last-byte";
    }
    return "accepts-invalid:" + why;
  }
  if (c.muts.empty() && ret != 0 && !(c.prov == 1 && (alg == JWT_ALG_ES256K || k.crv == "secp256k1"))) return "control-rejected";
  return "";
}

// ---- keys nobody can sign for: RSA public keys of unusual sizes with a made-up modulus, and real keys whose item is flagged
// with an error although the key material loaded (setkey takes such items). Every token must be rejected: there is no
// valid signature for the first kind, and for the second the tokens are damaged copies of valid ones.
struct OddCase { int prov; std::string jwk; std::string alg; std::string token; std::string what; };
static std::string odd_json(const OddCase &o) { return "{\"kind\":\"odd-key\",\"prov\":" + std::to_string(o.prov) + ",\"jwk\":" + jstr(o.jwk) + ",\"alg\":" + jstr(o.alg) + ",\"what\":" + jstr(o.what) + ",\"token\":" + jstr(o.token) + "}"; }
// 0 rejected, 1 accepted, -1 not applicable (the key does not import / is refused for that alg)
static int run_odd(const OddCase &o, int route) {
  set_provider(o.prov); set_now(1700000000);
  LKey lk(o.jwk); if (!lk.item) return -1;
  jwt_alg_t alg = jwt_str_alg(o.alg.c_str());
  jwt_checker_t *ch = jwt_checker_new(); CbCtx cx{lk.item, alg}; int sr = route ? jwt_checker_setcb(ch, cb_fn, &cx) : jwt_checker_setkey(ch, alg, lk.item);
  int ret = -1; if (!sr) ret = jwt_checker_verify(ch, o.token.c_str()) == 0 ? 1 : 0;
  jwt_checker_free(ch); return ret;
}
static void odd_keys(Stats &st, const Args &a) {
  std::vector<OddCase> cs;
  static const int BITS[] = {2048, 2056, 4096, 8192, 16384, 16392, 16400, 24576, 32768, 65536};
  static const char *RSALG[] = {"RS256", "RS384", "RS512", "PS256", "PS384", "PS512"};
  for (int bits : BITS) {
    Rng r(bits); std::string n = r.bytes(bits / 8); n[0] |= (char)0x80; n[n.size() - 1] |= 1;
    std::string jwk = "{\"kty\":\"RSA\",\"n\":\"" + b64u_enc(n) + "\",\"e\":\"AQAB\"}";
    for (int prov = 0; prov < 2; prov++) for (const char *al : RSALG) {
      std::string in = b64u_enc(std::string("{\"alg\":\"") + al + "\"}") + "." + b64u_enc("{\"sub\":\"x\"}");
      std::string one(bits / 8, '\0'); one[one.size() - 1] = 1;
      for (auto &sg : {r.bytes(bits / 8), std::string(bits / 8 - 1, 'x'), std::string(256, 'y'), one, std::string(1, 'z')})
        cs.push_back({prov, jwk, al, in + "." + b64u_enc(sg), "rsa-public-key-of-" + std::to_string(bits) + "-bits-with-made-up-modulus"});
    }
  }
  for (const KeySpec *k : KEYS) for (int ai = 0; ai < NALGS; ai++) if (strength_ok(*k, ALGS[ai].alg)) {
    JwkOpts o; o.priv = k->kind == K_OCT; o.alg_raw = "256"; std::string jwk = jwk_json(*k, o);
    std::string good = base_token(*k, ALGS[ai].alg, 0), bad = good; size_t pos = bad.size() - 3; bad[pos] = bad[pos] == 'A' ? 'B' : 'A';
    TokParts tp = split_token(good);
    for (int prov = 0; prov < 2; prov++) { cs.push_back({prov, jwk, ALGS[ai].name, bad, "flagged-item(alg:256)-" + k->name}); cs.push_back({prov, jwk, ALGS[ai].name, tp.signing_input + "." + b64u_enc(std::string(tp.sdec.size(), 'j')), "flagged-item(alg:256)-" + k->name}); }
  }
  // "a signature made with ... another algorithm": an RSA / EC / OKP key (which names no algorithm) asked to check an HS* token whose MAC
  // anybody can compute - keyed with nothing, with the public PEM, with the raw public numbers. (If setkey refuses the pair the case does not exist.)
  for (const KeySpec *k : KEYS) if (k->kind != K_OCT) for (const char *hs : {"HS256", "HS384", "HS512"}) {
    JwkOpts o; o.priv = false; std::string jwk = jwk_json(*k, o); const AlgInfo *hi = alg_by_name(hs);
    std::string in = b64u_enc(std::string("{\"alg\":\"") + hs + "\",\"typ\":\"JWT\"}") + "." + b64u_enc("{\"sub\":\"mallory\"}");
    std::string rawpub = k->kind == K_RSA ? pkey_bn(k->pkey, OSSL_PKEY_PARAM_RSA_N) : k->kind == K_EC ? pkey_bn(k->pkey, OSSL_PKEY_PARAM_EC_PUB_X, (k->bits + 7) / 8) + pkey_bn(k->pkey, OSSL_PKEY_PARAM_EC_PUB_Y, (k->bits + 7) / 8) : std::string();
    for (const std::string &secret : {std::string(), pkey_to_pem(k->pkey, false), rawpub, std::string(1, '\0')})
      for (int prov = 0; prov < 2; prov++) cs.push_back({prov, jwk, hs, in + "." + b64u_enc(ref_hmac(secret, hi->md, in)), "hmac-token-against-" + k->name});
  }
  // "a signature made with ... another algorithm": the key's own kind of signature under a header that names an algorithm of another
  // family (ES256-style under EdDSA / RS256, EdDSA-style under ES256 ...), for every pair setkey admits
  for (const KeySpec *k : KEYS) if (k->kind != K_OCT) for (int ai = 0; ai < NALGS; ai++) { const AlgInfo &hd = ALGS[ai]; if (hd.kind == k->kind || hd.kind == K_OCT) continue;
    jwt_alg_t na = k->kind == K_RSA ? JWT_ALG_RS256 : k->kind == K_OKP ? JWT_ALG_EDDSA : k->bits == 384 ? JWT_ALG_ES384 : k->bits == 521 ? JWT_ALG_ES512 : k->crv == "secp256k1" ? JWT_ALG_ES256K : JWT_ALG_ES256;
    JwkOpts o; o.priv = false; std::string jwk = jwk_json(*k, o), in = b64u_enc(std::string("{\"alg\":\"") + hd.name + "\",\"typ\":\"JWT\"}") + "." + b64u_enc("{\"sub\":\"mallory\"}");
    std::string sg = ref_sign(*k, na, in); if (sg.empty()) continue;
    for (int prov = 0; prov < 2; prov++) cs.push_back({prov, jwk, hd.name, in + "." + b64u_enc(sg), "native-signature-under-other-family-header-" + k->name});
  }
  for (size_t i = 0; i < cs.size(); i++) {
    if ((int)(i % a.nworkers) != a.worker) continue;
    for (int route = 0; route < 2; route++) {
      int r = run_odd(cs[i], route); st.evaluations++; st.cls(r < 0 ? "odd-key:not-applicable" : r ? "odd-key:accepted" : "odd-key:rejected");
      if (r == 0) st.nontrivial(mix(fnv(cs[i].token), mix(fnv(cs[i].jwk), cs[i].prov * 2 + route)));
      if (r == 1) { st.violation(std::string("C01:accepts-token-nobody-could-sign:") + (cs[i].what.rfind("rsa-public", 0) == 0 ? "rsa-made-up-modulus" : cs[i].what.rfind("hmac-token", 0) == 0 ? "hmac-token-under-asymmetric-key" : cs[i].what.rfind("native-sig", 0) == 0 ? "native-signature-under-other-family-header" : "flagged-item") + ":" + prov_name(cs[i].prov), "a token without a valid signature is accepted under " + cs[i].what, odd_json(cs[i])); return; }
    }
  }
}

// ---- ECDSA signatures with short halves, every re-encoding of them, deterministically: for each EC key and algorithm sign
// until a signature whose r starts with a zero octet, one whose s does, and (where it is likely enough) one where both do have
// been seen, then apply all nine ecdsa-special re-encodings under both providers and all four routes.
static std::string sig_class(const Case &c);
// ---- "under that key": the key a checker holds is the one it was given, also when an earlier key object lived at the same address.
// With a recycling allocator installed: load key A, verify A's token, free A's set; load key B of the same type (its item lands where
// A's was), and a checker holding B must reject A's token and accept B's. Likewise the builder must sign with B.
static void same_address_other_key(Stats &st, const Args &a) {
  struct Pair { const char *a, *b; jwt_alg_t alg; };
  static const Pair pairs[] = {{"rsa_2048", "rsa_2048b", JWT_ALG_RS256}, {"rsa_2048", "rsa_2048b", JWT_ALG_PS384}, {"ec_p256", "ec_p256b", JWT_ALG_ES256}, {"ec_p384", "ec_p384b", JWT_ALG_ES384}, {"ec_p521", "ec_p521b", JWT_ALG_ES512},
                               {"ec_k256", "ec_k256b", JWT_ALG_ES256K}, {"ed25519", "ed25519b", JWT_ALG_EDDSA}, {"ed448", "ed448b", JWT_ALG_EDDSA}, {"oct64", "oct64b", JWT_ALG_HS256}, {"oct64", "oct64b", JWT_ALG_HS512}};
  int idx = 0;
  for (const Pair &pr : pairs) for (int prov = 0; prov < 2; prov++) for (int priv = 0; priv < 2; priv++) {
    if ((idx++ % a.nworkers) != a.worker) continue;
    if (prov == 1 && pr.alg == JWT_ALG_ES256K) continue;
    const KeySpec &A = POOL.get(pr.a), &B = POOL.get(pr.b); bool oct = A.kind == K_OCT;
    std::string hdr = std::string("{\"alg\":\"") + jwt_alg_str(pr.alg) + "\"}", tokA = ref_token(A, pr.alg, hdr, "{\"k\":\"A\"}"), tokB = ref_token(B, pr.alg, hdr, "{\"k\":\"B\"}");
    set_provider(prov); jwt_set_alloc(recycle_malloc, recycle_free);
    std::string bad; const void *addrA = nullptr, *addrB = nullptr; long reused0 = recycler().reused;
    { JwkOpts o; o.priv = priv || oct; o.kid = "same-address"; LKey ka(jwk_json(A, o)); addrA = ka.item;
      jwt_checker_t *ch = jwt_checker_new(); if (ka.item && !jwt_checker_setkey(ch, pr.alg, ka.item)) { if (jwt_checker_verify(ch, tokA.c_str())) bad = "first-key-rejects-its-own-token"; } jwt_checker_free(ch);
      if (bad.empty() && (priv || oct) && ka.item) { jwt_builder_t *b = jwt_builder_new(); if (!jwt_builder_setkey(b, pr.alg, ka.item)) { char *t = jwt_builder_generate(b); free(t); } jwt_builder_free(b); } }   // ka freed here
    if (bad.empty()) { JwkOpts o; o.priv = priv || oct; o.kid = "same-address"; LKey kb(jwk_json(B, o)); addrB = kb.item;
      jwt_checker_t *ch = jwt_checker_new();
      if (kb.item && !jwt_checker_setkey(ch, pr.alg, kb.item)) {
        if (jwt_checker_verify(ch, tokA.c_str()) == 0) bad = "accepts-token-signed-by-the-key-that-lived-at-this-address-before";
        else if (jwt_checker_verify(ch, tokB.c_str()) != 0) bad = "rejects-token-of-the-key-it-holds";
      }
      jwt_checker_free(ch);
      if (bad.empty() && (priv || oct) && kb.item) { jwt_builder_t *b = jwt_builder_new(); if (!jwt_builder_setkey(b, pr.alg, kb.item)) { char *t = jwt_builder_generate(b); if (t && !ref_valid(B, t)) bad = "builder-signs-with-the-key-that-lived-at-this-address-before"; free(t); } jwt_builder_free(b); } }
    jwt_set_alloc(NULL, NULL);
    st.evaluations++; st.cls("same-address-other-key"); if (addrA && addrA == addrB) { st.cls("same-address-other-key:item-address-reused"); st.nontrivial(mix(fnv(pr.a), mix(pr.alg, prov * 2 + priv))); }
    (void)reused0;
    if (!bad.empty()) { st.violation("C01:" + bad + ":" + prov_name(prov), "a key object loaded where a freed one had been is confused with it", "{\"kind\":\"same-address\",\"prov\":" + std::to_string(prov) + ",\"a\":\"" + pr.a + "\",\"b\":\"" + pr.b + "\",\"alg\":\"" + jwt_alg_str(pr.alg) + "\",\"priv\":" + std::to_string(priv) + "}"); return; }
  }
}
// ---- "under that key": the key a checker holds is the one given with setkey, whatever a callback chose for EARLIER tokens. A long-lived
// checker holds K0; its callback hands out KB for one token (key selection by kid) and leaves the configuration alone for the next ones
// (or is removed): those are judged under K0 again.
struct HistCtx { const jwk_item_t *key; int alg; };
static int hist_cb(jwt_t *, jwt_config_t *cfg) { HistCtx *h = (HistCtx *)cfg->ctx; if (h && h->key) cfg->key = h->key; if (h && h->alg >= 0) cfg->alg = (jwt_alg_t)h->alg; return 0; }
static std::string key_history_case(int prov, const char *an, const char *bn, jwt_alg_t alg, int variant) {
  const KeySpec &A = POOL.get(an), &B = POOL.get(bn); bool oct = A.kind == K_OCT;
  std::string hdr = std::string("{\"alg\":\"") + jwt_alg_str(alg) + "\"}", tokA = ref_token(A, alg, hdr, "{\"k\":\"A\"}"), tokB = ref_token(B, alg, hdr, "{\"k\":\"B\"}");
  set_provider(prov);
  // variant bit 1: the keys carry no alg attribute and the algorithm is given with setkey (else: attribute, setkey(NONE)); bit 2: the callback
  // names the algorithm too; bit 4: the callback is removed afterwards (else it stays and leaves the configuration alone)
  JwkOpts o; o.priv = oct; if (!(variant & 1)) o.alg = jwt_alg_str(alg); o.kid = "k0"; LKey k0(jwk_json(A, o)); o.kid = "kb"; LKey kb(jwk_json(B, o)); if (!k0.item || !kb.item) return "";
  std::string bad; HistCtx hc{nullptr, -1};
  jwt_checker_t *ch = jwt_checker_new();
  if (!jwt_checker_setkey(ch, (variant & 1) ? alg : JWT_ALG_NONE, k0.item)) {
    jwt_checker_setcb(ch, hist_cb, &hc);
    hc.key = kb.item; if (variant & 2) hc.alg = alg;
    (void)jwt_checker_verify(ch, tokB.c_str());   // the callback's key for this token (whether it is honoured is C19's matter)
    hc.key = nullptr; hc.alg = -1; if (variant & 4) jwt_checker_setcb(ch, NULL, NULL);
    if (jwt_checker_verify(ch, tokB.c_str()) == 0) bad = "accepts-token-of-a-key-the-callback-chose-for-an-earlier-token";
    else if (jwt_checker_verify(ch, tokA.c_str()) != 0) bad = "rejects-token-of-the-key-it-holds-after-a-callback-chose-another-for-an-earlier-token";
  }
  jwt_checker_free(ch);
  return bad;
}
static void key_history(Stats &st, const Args &a) {
  struct Pair { const char *a, *b; jwt_alg_t alg; };
  static const Pair pairs[] = {{"rsa_2048", "rsa_2048b", JWT_ALG_RS256}, {"rsa_2048", "rsa_2048b", JWT_ALG_PS384}, {"ec_p256", "ec_p256b", JWT_ALG_ES256}, {"ec_p384", "ec_p384b", JWT_ALG_ES384}, {"ec_p521", "ec_p521b", JWT_ALG_ES512},
                               {"ec_k256", "ec_k256b", JWT_ALG_ES256K}, {"ed25519", "ed25519b", JWT_ALG_EDDSA}, {"ed448", "ed448b", JWT_ALG_EDDSA}, {"oct64", "oct64b", JWT_ALG_HS256}, {"oct64", "oct64b", JWT_ALG_HS512}};
  int idx = 0;
  for (size_t pi = 0; pi < sizeof(pairs) / sizeof(pairs[0]); pi++) for (int prov = 0; prov < 2; prov++) for (int variant = 0; variant < 8; variant++) {
    const Pair &pr = pairs[pi];
    if ((idx++ % a.nworkers) != a.worker) continue;
    if (prov == 1 && pr.alg == JWT_ALG_ES256K) continue;
    std::string bad = key_history_case(prov, pr.a, pr.b, pr.alg, variant);
    st.evaluations++; st.cls("key-history(callback-chose-another-key-for-an-earlier-token)"); st.nontrivial(mix(fnv("hist"), mix(pi, prov * 8 + variant)));
    if (!bad.empty()) { st.violation("C01:" + bad + ":" + prov_name(prov), "a reused checker judges a token under a key other than the one it holds", "{\"kind\":\"key-history\",\"prov\":" + std::to_string(prov) + ",\"pair\":" + std::to_string(pi) + ",\"variant\":" + std::to_string(variant) + ",\"a\":\"" + pr.a + "\",\"b\":\"" + pr.b + "\",\"alg\":\"" + jwt_alg_str(pr.alg) + "\"}"); return; }
  }
}
// ---- "over exactly the bytes of the first two segments", also while OTHER threads verify: several threads, each with its own checker, share one
// read-only key; half of them verify a genuine token, the others a token that carries the genuine signature under another payload
#include <thread>
#include <atomic>
static std::string concurrent_retarget_case(int prov, const char *kn, jwt_alg_t alg, int iters, long *overl) {
  const KeySpec &k = POOL.get(kn); bool oct = k.kind == K_OCT; set_provider(prov);
  JwkOpts o; o.priv = oct; LKey key(jwk_json(k, o)); if (!key.ok()) return "";
  std::string hdr = std::string("{\"alg\":\"") + jwt_alg_str(alg) + "\"}", good = ref_token(k, alg, hdr, "{\"k\":\"genuine\",\"n\":1}"); TokParts tp = split_token(good); if (!tp.ok) return "";
  std::string forged = tp.h + "." + b64u_enc("{\"k\":\"forged\",\"n\":2}") + "." + tp.s;
  std::atomic<long> accepted_forged{0}, rejected_good{0}; std::atomic<int> running{0}; std::atomic<long> overlaps{0};
  auto work = [&](bool forge) { jwt_checker_t *ch = jwt_checker_new(); if (jwt_checker_setkey(ch, alg, key.item)) { jwt_checker_free(ch); return; }
    for (int i = 0; i < iters; i++) { if (running.fetch_add(1) > 0) overlaps++; int r = jwt_checker_verify(ch, forge ? forged.c_str() : good.c_str()); running--; if (forge && r == 0) accepted_forged++; if (!forge && r != 0) rejected_good++; }
    jwt_checker_free(ch); };
  std::vector<std::thread> th; for (int t = 0; t < 4; t++) th.emplace_back(work, (t & 1) != 0); for (auto &x : th) x.join();
  if (overl) *overl = overlaps.load();
  if (accepted_forged.load()) return "accepts-retargeted-signature-while-another-thread-verifies-the-genuine-token";
  return "";
}
static void concurrent_retarget(Stats &st, const Args &a) {
  struct C { const char *k; jwt_alg_t alg; int iters; }; static const C cs[] = {{"oct64", JWT_ALG_HS256, 20000}, {"oct64", JWT_ALG_HS512, 20000}, {"oct48", JWT_ALG_HS384, 20000}, {"rsa_2048", JWT_ALG_RS256, 400}, {"ec_p256", JWT_ALG_ES256, 200}, {"ed25519", JWT_ALG_EDDSA, 300}};
  int idx = 0;
  for (size_t ci = 0; ci < sizeof(cs) / sizeof(cs[0]); ci++) for (int prov = 0; prov < 2; prov++) {
    if ((idx++ % a.nworkers) != a.worker) continue;
    long ov = 0; std::string r = concurrent_retarget_case(prov, cs[ci].k, cs[ci].alg, a.thorough() ? cs[ci].iters * 5 : cs[ci].iters, &ov);
    st.evaluations++; st.cls("concurrent-retarget-cells"); st.cls("concurrent-retarget:overlapping-verifies", ov); if (ov > 0) st.nontrivial(mix(fnv("conc"), ci * 2 + prov));
    if (!r.empty()) { st.violation("C01:" + r + ":" + prov_name(prov), "a checker accepted a token whose signature belongs to another token, while other threads were verifying", "{\"kind\":\"concurrent-retarget\",\"prov\":" + std::to_string(prov) + ",\"cell\":" + std::to_string(ci) + ",\"key\":\"" + cs[ci].k + "\",\"alg\":\"" + jwt_alg_str(cs[ci].alg) + "\"}"); return; }
  }
}
static void ecdsa_specials(Stats &st, const Args &a) {
  std::vector<std::pair<size_t, int>> ec; for (size_t ki = 0; ki < KEYS.size(); ki++) for (int ai = 0; ai < NALGS; ai++) if (KEYS[ki]->kind == K_EC && strength_ok(*KEYS[ki], ALGS[ai].alg)) ec.push_back({ki, ai});
  for (size_t ci = 0; ci < ec.size(); ci++) {
    // with more workers than cells every cell is done by several workers (each with its own signatures)
    if ((size_t)a.nworkers >= ec.size() ? (size_t)a.worker % ec.size() != ci : ci % a.nworkers != (size_t)a.worker) continue;
    size_t ki = ec[ci].first; int ai = ec[ci].second; const KeySpec &k = *KEYS[ki]; jwt_alg_t alg = ALGS[ai].alg;
    size_t w = (k.bits + 7) / 8; std::string found[4]; int tries = k.bits == 521 ? 400 : 3000;
    for (int i = 0; i < tries && (found[1].empty() || found[2].empty() || (k.bits == 521 && found[3].empty())); i++) {
      std::string t = ref_token(k, alg, std::string("{\"alg\":\"") + jwt_alg_str(alg) + "\",\"typ\":\"JWT\"}", "{\"sub\":\"ec\",\"i\":" + std::to_string(i + 1000 * a.worker) + "}");
      TokParts tp = split_token(t); if (!tp.ok || tp.sdec.size() != 2 * w) continue;
      int cls = (tp.sdec[0] == 0 ? 1 : 0) | (tp.sdec[w] == 0 ? 2 : 0); if (found[cls].empty()) found[cls] = t;
    }
    for (int cls = 0; cls < 4; cls++) if (!found[cls].empty()) {
      st.cls(std::string("ecdsa-special-base:") + (cls == 0 ? "full-width-r-and-s" : cls == 1 ? "short-r" : cls == 2 ? "short-s" : "short-r-and-s"));
      for (int v = 0; v < 10; v++) for (int prov = 0; prov < 2; prov++) for (int cfg = 0; cfg < 4; cfg++) {
        Case c; c.prov = prov; c.key = (int)ki; c.algi = ai; c.cfg = cfg; c.pay = 0; c.muts.push_back({M_EC_SPECIAL, v, 0, 0});
        c.token = apply(k, alg, 0, found[cls], c.muts[0]);
        std::string r = run_case(c, true);
        if (!r.empty()) { std::string sig = "C01:" + r + ":" + sig_class(c); if (st.is_known(sig)) { st.known_hits[sig]++; continue; } st.violation(sig, "checker accepted a re-encoded ECDSA signature the reference verifier rejects: " + r, case_json(c)); return; }
      }
    }
  }
}

static std::string sig_class(const Case &c) {
  const KeySpec &k = *KEYS[c.key];
  return std::string(k.kind == K_OCT ? "oct" : k.kind == K_RSA ? "rsa" : k.kind == K_EC ? "ec" : "okp") + ":" + prov_name(c.prov);
}

int main(int argc, char **argv) {
  Args a = parse_args(argc, argv);
  POOL = standard_pool();
  std::vector<std::string> names = {"oct32", "oct64", "oct77", "rsa_2048", "ec_p256", "ec_p384", "ec_p521", "ec_k256", "ed25519", "ed448"};
  if (a.thorough()) { names.push_back("rsa_3072"); names.push_back("rsa_4096"); names.push_back("oct48"); }
  for (auto &n : names) KEYS.push_back(&POOL.get(n));
  static KeySpec rsa2050 = load_fixture("rsa_2050"); KEYS.push_back(&rsa2050);   // modulus length not a multiple of 8 bits
  // (key, alg) cells
  std::vector<std::pair<int, int>> cells;
  for (size_t ki = 0; ki < KEYS.size(); ki++) for (int ai = 0; ai < NALGS; ai++) if (strength_ok(*KEYS[ki], ALGS[ai].alg)) cells.push_back({(int)ki, ai});
  cur_case() = [] { return case_json(CUR); };
  Stats &st = stats();

  if (!a.replay.empty()) {
    J j = J::parse(read_file(a.replay)); if (!j) return 2;
    if (json_object_get(j.p, "kind") && !strcmp(json_string_value(json_object_get(j.p, "kind")), "concurrent-retarget")) {   // schedule dependent: several attempts
      const char *kn = json_string_value(json_object_get(j.p, "key")); jwt_alg_t alg = jwt_str_alg(json_string_value(json_object_get(j.p, "alg")));
      for (int i = 0; i < 5; i++) if (!concurrent_retarget_case((int)json_integer_value(json_object_get(j.p, "prov")), kn, alg, 40000, nullptr).empty()) return 3; return 0; }
    if (json_object_get(j.p, "kind") && !strcmp(json_string_value(json_object_get(j.p, "kind")), "key-history")) {
      const char *an = json_string_value(json_object_get(j.p, "a")), *bn = json_string_value(json_object_get(j.p, "b")); jwt_alg_t alg = jwt_str_alg(json_string_value(json_object_get(j.p, "alg")));
      return key_history_case((int)json_integer_value(json_object_get(j.p, "prov")), an, bn, alg, (int)json_integer_value(json_object_get(j.p, "variant"))).empty() ? 0 : 3; }
    if (json_object_get(j.p, "kind") && !strcmp(json_string_value(json_object_get(j.p, "kind")), "same-address")) { Args a1 = a; a1.worker = 0; a1.nworkers = 1; same_address_other_key(st, a1); return st.violations.empty() ? 0 : 3; }
    if (json_object_get(j.p, "kind")) { OddCase o{(int)json_integer_value(json_object_get(j.p, "prov")), json_string_value(json_object_get(j.p, "jwk")), json_string_value(json_object_get(j.p, "alg")), from_latin1_utf8(json_string_value(json_object_get(j.p, "token"))), ""};
      return run_odd(o, 0) == 1 || run_odd(o, 1) == 1 ? 3 : 0; }
    Case c; c.prov = (int)json_integer_value(json_object_get(j.p, "prov")); c.cfg = (int)json_integer_value(json_object_get(j.p, "cfg")); c.pay = 0;
    std::string kn = json_string_value(json_object_get(j.p, "key")), an = json_string_value(json_object_get(j.p, "alg"));
    c.key = -1; for (size_t i = 0; i < KEYS.size(); i++) if (KEYS[i]->name == kn) c.key = (int)i;
    if (c.key < 0) { KEYS.push_back(&POOL.get(kn)); c.key = (int)KEYS.size() - 1; }
    c.algi = -1; for (int i = 0; i < NALGS; i++) if (an == ALGS[i].name) c.algi = i;
    c.token = from_latin1_utf8(json_string_value(json_object_get(j.p, "token")));
    c.muts.push_back({M_RAW_BYTE, 0, 0, 0});  // not a control
    std::string r = run_case(c, false);
    return r.empty() ? 0 : 3;
  }

  odd_keys(st, a);
  if (!st.violations.empty()) return finish();
  ecdsa_specials(st, a);
  if (!st.violations.empty()) return finish();
  same_address_other_key(st, a);
  if (!st.violations.empty()) return finish();
  key_history(st, a);
  if (!st.violations.empty()) return finish();
  concurrent_retarget(st, a);
  if (!st.violations.empty()) return finish();
  uint64_t n = a.thorough() ? 150000 : 2500;
  if (a.kv.count("cases")) n = strtoull(a.kv["cases"].c_str(), 0, 10);
  std::string params = "seed=" + std::to_string(a.seed * 1000 + a.worker) + " max_success=" + std::to_string(n) + " max_size=60 max_discard_ratio=50";
  setenv("RC_PARAMS", params.c_str(), 1);
  Case lastfail; std::string lastwhy;
  bool ok = rc::check("C01: verify==0 only for tokens valid under the configured key", [&]() {
    if (v::shrink_exhausted()) return;
    Case c;
    auto cell = *rc::gen::elementOf(cells);
    c.key = cell.first; c.algi = cell.second;
    c.prov = *UNI(0, 2); c.cfg = *UNI(0, 4); c.pay = *UNI(0, NPAY);
    int nm = *rc::gen::weightedElement<int>({{1, 0}, {10, 1}, {4, 2}, {2, 3}});
    for (int i = 0; i < nm; i++) { Mut m; m.kind = *UNI<int>(0, (int)M_NKINDS); m.a = *UNI(0, 1 << 20); m.b = *UNI(0, 1 << 20); m.c = *UNI(0, 1 << 20); c.muts.push_back(m); }
    const KeySpec &k = *KEYS[c.key]; jwt_alg_t alg = ALGS[c.algi].alg;
    std::string t = base_token(k, alg, c.pay);
    for (auto &m : c.muts) t = apply(k, alg, c.pay, t, m);
    t = t.substr(0, t.find('\0'));
    c.token = t;
    std::string r = run_case(c, true);
    if (!r.empty()) {
      std::string sig = "C01:" + r + ":" + sig_class(c);
      if (st.is_known(sig)) { st.known_hits[sig]++; return; }
      lastfail = c; lastwhy = r;
      v::fail_seen()++; RC_FAIL(r);
    }
  });
  if (!ok && !lastwhy.empty()) {
    // the last failing case seen is the shrunk one
    std::string sig = "C01:" + lastwhy + ":" + sig_class(lastfail);
    st.violation(sig, "checker accepted a token the reference verifier rejects (or rejected the unmutated control): " + lastwhy, case_json(lastfail));
  }
  st.extra["key_alg_cells"] = std::to_string(cells.size());
  return finish();
}
