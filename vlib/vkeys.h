// vkeys.h - key pool (fixtures + generated), own JWK renderer, reference signer/verifier on raw
// OpenSSL EVP (NOT through libjwt), and a small RAII loader for libjwt keys.
#pragma once
#include "vlib.h"
#include <openssl/evp.h>
#include <openssl/pem.h>
#include <openssl/bn.h>
#include <openssl/ec.h>
#include <openssl/hmac.h>
#include <openssl/rsa.h>
#include <openssl/core_names.h>
#include <openssl/err.h>
#include <memory>

#ifndef VERIF_DIR
#define VERIF_DIR "/verif"
#endif

namespace v {

enum Kind { K_OCT, K_RSA, K_EC, K_OKP };

struct KeySpec {
  std::string name;
  Kind kind = K_OCT;
  int bits = 0;             // oct: 8*len; RSA: modulus bits; EC: field bits; OKP: 256/456
  std::string crv;          // JWK crv value ("P-256", "secp256k1", "Ed25519", ...)
  EVP_PKEY *pkey = nullptr; // private key (asymmetric)
  std::string oct;          // raw bytes (symmetric)
};

// ---------------------------------------------------------------- algorithms
struct AlgInfo { jwt_alg_t alg; const char *name; Kind kind; const char *md; int ecbits; bool pss; };
static const AlgInfo ALGS[] = {
  {JWT_ALG_HS256, "HS256", K_OCT, "SHA256", 0, false}, {JWT_ALG_HS384, "HS384", K_OCT, "SHA384", 0, false}, {JWT_ALG_HS512, "HS512", K_OCT, "SHA512", 0, false},
  {JWT_ALG_RS256, "RS256", K_RSA, "SHA256", 0, false}, {JWT_ALG_RS384, "RS384", K_RSA, "SHA384", 0, false}, {JWT_ALG_RS512, "RS512", K_RSA, "SHA512", 0, false},
  {JWT_ALG_ES256, "ES256", K_EC, "SHA256", 256, false}, {JWT_ALG_ES384, "ES384", K_EC, "SHA384", 384, false}, {JWT_ALG_ES512, "ES512", K_EC, "SHA512", 521, false},
  {JWT_ALG_PS256, "PS256", K_RSA, "SHA256", 0, true}, {JWT_ALG_PS384, "PS384", K_RSA, "SHA384", 0, true}, {JWT_ALG_PS512, "PS512", K_RSA, "SHA512", 0, true},
  {JWT_ALG_ES256K, "ES256K", K_EC, "SHA256", 256, false}, {JWT_ALG_EDDSA, "EdDSA", K_OKP, nullptr, 0, false},
};
static const int NALGS = sizeof(ALGS) / sizeof(ALGS[0]);
inline const AlgInfo *alg_info(jwt_alg_t a) { for (auto &x : ALGS) if (x.alg == a) return &x; return nullptr; }
inline const AlgInfo *alg_by_name(const std::string &n) { for (auto &x : ALGS) if (n == x.name) return &x; return nullptr; }
inline int hs_min_bits(jwt_alg_t a) { return a == JWT_ALG_HS256 ? 256 : a == JWT_ALG_HS384 ? 384 : 512; }
// family + strength admissibility per the statements of C02/C09
inline bool family_ok(const KeySpec &k, jwt_alg_t a) {
  const AlgInfo *ai = alg_info(a); if (!ai) return false;
  if (ai->kind != k.kind) return false;
  if (k.kind == K_EC) return ai->ecbits == k.bits;
  return true;
}
inline bool strength_ok(const KeySpec &k, jwt_alg_t a) {
  if (!family_ok(k, a)) return false;
  if (k.kind == K_OCT) return k.bits >= hs_min_bits(a);
  if (k.kind == K_RSA) return k.bits >= 2048;
  if (k.kind == K_OKP) return k.bits == 256 || k.bits == 456;
  return true;
}

// ---------------------------------------------------------------- pkey helpers
inline std::string bn_bytes(const BIGNUM *b, int width = 0) {
  int n = BN_num_bytes(b); if (width < n) width = n; std::string r(width, 0);
  if (width) BN_bn2binpad(b, (unsigned char *)&r[0], width);
  return r;
}
inline std::string pkey_bn(EVP_PKEY *k, const char *name, int width = 0) {
  BIGNUM *b = nullptr; if (!EVP_PKEY_get_bn_param(k, name, &b)) return ""; std::string r = bn_bytes(b, width); BN_free(b); return r;
}
inline EVP_PKEY *pem_to_pkey(const std::string &pem, bool priv) {
  BIO *b = BIO_new_mem_buf(pem.data(), (int)pem.size()); EVP_PKEY *k = priv ? PEM_read_bio_PrivateKey(b, nullptr, nullptr, nullptr) : PEM_read_bio_PUBKEY(b, nullptr, nullptr, nullptr);
  BIO_free(b); ERR_clear_error(); return k;
}
inline std::string pkey_to_pem(EVP_PKEY *k, bool priv) {
  BIO *b = BIO_new(BIO_s_mem()); if (priv) PEM_write_bio_PrivateKey(b, k, nullptr, nullptr, 0, nullptr, nullptr); else PEM_write_bio_PUBKEY(b, k);
  char *p; long n = BIO_get_mem_data(b, &p); std::string r(p, n); BIO_free(b); return r;
}
inline bool fill_spec_from_pkey(KeySpec &s) {
  EVP_PKEY *k = s.pkey; if (!k) return false;
  int id = EVP_PKEY_base_id(k);
  if (id == EVP_PKEY_RSA || id == EVP_PKEY_RSA_PSS) { s.kind = K_RSA; s.bits = EVP_PKEY_bits(k); }
  else if (id == EVP_PKEY_EC) {
    s.kind = K_EC; s.bits = EVP_PKEY_bits(k);
    char nm[80]; size_t l = 0; EVP_PKEY_get_utf8_string_param(k, OSSL_PKEY_PARAM_GROUP_NAME, nm, sizeof nm, &l);
    std::string g(nm, l);
    s.crv = g == "prime256v1" ? "P-256" : g == "secp384r1" ? "P-384" : g == "secp521r1" ? "P-521" : g;
  } else if (id == EVP_PKEY_ED25519) { s.kind = K_OKP; s.bits = 256; s.crv = "Ed25519"; }
  else if (id == EVP_PKEY_ED448) { s.kind = K_OKP; s.bits = 456; s.crv = "Ed448"; }
  else return false;
  return true;
}
inline KeySpec load_fixture(const std::string &name) {
  KeySpec s; s.name = name;
  std::string pem = read_file(std::string(VERIF_DIR) + "/fixtures/keys/" + name + ".pem");
  s.pkey = pem_to_pkey(pem, true);
  if (!s.pkey || !fill_spec_from_pkey(s)) { fprintf(stderr, "cannot load fixture %s\n", name.c_str()); exit(2); }
  return s;
}
inline KeySpec oct_key(const std::string &name, size_t len, uint64_t salt = 0) {
  KeySpec s; s.name = name; s.kind = K_OCT; s.bits = (int)len * 8; Rng r(fnv(name) ^ salt); s.oct = r.bytes(len);
  for (auto &c : s.oct) if (c == 0) c = 1;  // keep printable-ish; NUL bytes are legal but make no difference
  return s;
}
inline KeySpec gen_key(const std::string &what) {  // fresh key via OpenSSL (thorough tiers)
  KeySpec s; s.name = "fresh-" + what;
  if (what.rfind("rsa", 0) == 0) s.pkey = EVP_PKEY_Q_keygen(nullptr, nullptr, "RSA", (size_t)atoi(what.c_str() + 3));
  else if (what == "ed25519") s.pkey = EVP_PKEY_Q_keygen(nullptr, nullptr, "ED25519");
  else if (what == "ed448") s.pkey = EVP_PKEY_Q_keygen(nullptr, nullptr, "ED448");
  else s.pkey = EVP_PKEY_Q_keygen(nullptr, nullptr, "EC", what.c_str());
  if (!s.pkey || !fill_spec_from_pkey(s)) { fprintf(stderr, "keygen failed %s\n", what.c_str()); exit(2); }
  return s;
}

// ---------------------------------------------------------------- own JWK renderer
struct JwkOpts {
  bool priv = true;
  std::string alg;        // "" = no alg member
  bool swap_pq = false;    // RSA private: the two primes in the other order (p < q is as legal as p > q), dp/dq exchanged, qi recomputed
  bool eq_pad = false;     // members written WITH '=' padding (what e.g. Python's urlsafe_b64encode emits)
  std::string alg_raw;    // raw JSON text for the alg member (e.g. 256: the item is flagged "Invalid alg type" AFTER its key material was loaded)
  std::string kid;        // "" = none
  std::string use;        // "" = none
  std::string key_ops;    // raw JSON array text, "" = none
  int pad = 0;            // extra leading zero bytes on integers (RSA members, EC d)
  bool strip = false;     // EC: minimal-length x,y,d instead of fixed width
  bool okp_priv_with_x = true;
  std::string extra;      // raw JSON members text to splice in, e.g. "\"foo\":1,\"n\":\"AA\""
};
inline std::string zpad(const std::string &b, int pad) { return std::string(pad, '\0') + b; }
inline std::string strip0(std::string b) { size_t i = 0; while (i + 1 < b.size() && b[i] == 0) i++; return b.substr(i); }
// coefficient of an RSA key whose primes are written in the other order: (old p)^-1 mod (old q)
inline std::string rsa_swapped_qi(EVP_PKEY *pk) {
  BIGNUM *p = nullptr, *q = nullptr; EVP_PKEY_get_bn_param(pk, OSSL_PKEY_PARAM_RSA_FACTOR1, &p); EVP_PKEY_get_bn_param(pk, OSSL_PKEY_PARAM_RSA_FACTOR2, &q);
  BN_CTX *c = BN_CTX_new(); BIGNUM *r = BN_mod_inverse(nullptr, p, q, c); std::string out = r ? bn_bytes(r, BN_num_bytes(r)) : std::string(); BN_free(r); BN_free(p); BN_free(q); BN_CTX_free(c); return out;
}
inline std::string jwk_json(const KeySpec &k, const JwkOpts &o) {
  std::string m;
  auto add = [&](const char *n, const std::string &bytes) { std::string t = b64u_enc(bytes); if (o.eq_pad) while (t.size() % 4) t += '='; m += std::string(",\"") + n + "\":\"" + t + "\""; };
  if (k.kind == K_OCT) { m = "\"kty\":\"oct\""; add("k", k.oct); }
  else if (k.kind == K_RSA) {
    m = "\"kty\":\"RSA\"";
    add("n", zpad(pkey_bn(k.pkey, OSSL_PKEY_PARAM_RSA_N), o.pad)); add("e", zpad(pkey_bn(k.pkey, OSSL_PKEY_PARAM_RSA_E), o.pad));
    if (o.priv) {
      const char *P1 = o.swap_pq ? OSSL_PKEY_PARAM_RSA_FACTOR2 : OSSL_PKEY_PARAM_RSA_FACTOR1, *P2 = o.swap_pq ? OSSL_PKEY_PARAM_RSA_FACTOR1 : OSSL_PKEY_PARAM_RSA_FACTOR2;
      const char *E1 = o.swap_pq ? OSSL_PKEY_PARAM_RSA_EXPONENT2 : OSSL_PKEY_PARAM_RSA_EXPONENT1, *E2 = o.swap_pq ? OSSL_PKEY_PARAM_RSA_EXPONENT1 : OSSL_PKEY_PARAM_RSA_EXPONENT2;
      add("d", zpad(pkey_bn(k.pkey, OSSL_PKEY_PARAM_RSA_D), o.pad)); add("p", zpad(pkey_bn(k.pkey, P1), o.pad));
      add("q", zpad(pkey_bn(k.pkey, P2), o.pad)); add("dp", zpad(pkey_bn(k.pkey, E1), o.pad));
      add("dq", zpad(pkey_bn(k.pkey, E2), o.pad)); add("qi", zpad(o.swap_pq ? rsa_swapped_qi(k.pkey) : pkey_bn(k.pkey, OSSL_PKEY_PARAM_RSA_COEFFICIENT1), o.pad));
    }
  } else if (k.kind == K_EC) {
    int w = (k.bits + 7) / 8;
    m = "\"kty\":\"EC\",\"crv\":\"" + k.crv + "\"";
    std::string x = pkey_bn(k.pkey, OSSL_PKEY_PARAM_EC_PUB_X, w), y = pkey_bn(k.pkey, OSSL_PKEY_PARAM_EC_PUB_Y, w);
    if (o.strip) { x = strip0(x); y = strip0(y); }
    add("x", zpad(x, o.pad)); add("y", zpad(y, o.pad));
    if (o.priv) { std::string d = pkey_bn(k.pkey, OSSL_PKEY_PARAM_PRIV_KEY, w); if (o.strip) d = strip0(d); add("d", zpad(d, o.pad)); }
  } else {
    m = "\"kty\":\"OKP\",\"crv\":\"" + k.crv + "\"";
    unsigned char buf[64]; size_t l = sizeof buf;
    if (!o.priv || o.okp_priv_with_x) { l = sizeof buf; EVP_PKEY_get_raw_public_key(k.pkey, buf, &l); add("x", std::string((char *)buf, l)); }
    if (o.priv) { l = sizeof buf; EVP_PKEY_get_raw_private_key(k.pkey, buf, &l); add("d", std::string((char *)buf, l)); }
  }
  if (!o.alg.empty()) m += ",\"alg\":" + jutf8(o.alg);
  else if (!o.alg_raw.empty()) m += ",\"alg\":" + o.alg_raw;
  if (!o.kid.empty()) m += ",\"kid\":" + jutf8(o.kid);
  if (!o.use.empty()) m += ",\"use\":" + jutf8(o.use);
  if (!o.key_ops.empty()) m += ",\"key_ops\":" + o.key_ops;
  if (!o.extra.empty()) m += "," + o.extra;
  return "{" + m + "}";
}

// ---------------------------------------------------------------- libjwt-side key (through the public JWK importer)
struct LKey {
  jwk_set_t *set = nullptr; const jwk_item_t *item = nullptr; std::string json;
  LKey() {}
  explicit LKey(const std::string &jwk) : json(jwk) { set = jwks_create_strn(jwk.data(), jwk.size()); item = set ? jwks_item_get(set, 0) : nullptr; }
  LKey(const LKey &) = delete; LKey &operator=(const LKey &) = delete;
  LKey(LKey &&o) noexcept : set(o.set), item(o.item), json(std::move(o.json)) { o.set = nullptr; o.item = nullptr; }
  LKey &operator=(LKey &&o) noexcept { if (set) jwks_free(set); set = o.set; item = o.item; json = std::move(o.json); o.set = nullptr; o.item = nullptr; return *this; }
  ~LKey() { if (set) jwks_free(set); }
  bool ok() const { return item && !jwks_item_error(item); }
};

// ---------------------------------------------------------------- reference signer / verifier (raw EVP)
inline std::string ref_hmac(const std::string &key, const char *md, const std::string &in) {
  unsigned char out[EVP_MAX_MD_SIZE]; unsigned int l = 0; static const unsigned char z = 0;
  const EVP_MD *m = EVP_get_digestbyname(md);
  HMAC(m, key.empty() ? (const void *)&z : key.data(), (int)key.size(), (const unsigned char *)in.data(), in.size(), out, &l);
  return std::string((char *)out, l);
}
inline std::string ref_sign(const KeySpec &k, jwt_alg_t a, const std::string &in) {
  const AlgInfo *ai = alg_info(a); if (!ai) return "";
  if (ai->kind == K_OCT) return ref_hmac(k.oct, ai->md, in);
  if (!k.pkey) return "";
  EVP_MD_CTX *c = EVP_MD_CTX_new(); EVP_PKEY_CTX *pc = nullptr; std::string out;
  const EVP_MD *md = ai->md ? EVP_get_digestbyname(ai->md) : nullptr;
  if (EVP_DigestSignInit(c, &pc, md, nullptr, k.pkey) == 1) {
    if (ai->pss) { EVP_PKEY_CTX_set_rsa_padding(pc, RSA_PKCS1_PSS_PADDING); EVP_PKEY_CTX_set_rsa_pss_saltlen(pc, RSA_PSS_SALTLEN_DIGEST); }
    size_t sl = 0;
    if (EVP_DigestSign(c, nullptr, &sl, (const unsigned char *)in.data(), in.size()) == 1) {
      std::string der(sl, 0);
      if (EVP_DigestSign(c, (unsigned char *)&der[0], &sl, (const unsigned char *)in.data(), in.size()) == 1) {
        der.resize(sl);
        if (ai->kind == K_EC) {
          const unsigned char *p = (const unsigned char *)der.data(); ECDSA_SIG *s = d2i_ECDSA_SIG(nullptr, &p, (long)der.size());
          if (s) { int w = (k.bits + 7) / 8; out = bn_bytes(ECDSA_SIG_get0_r(s), w) + bn_bytes(ECDSA_SIG_get0_s(s), w); ECDSA_SIG_free(s); }
        } else out = der;
      }
    }
  }
  EVP_MD_CTX_free(c); ERR_clear_error();
  return out;
}
// "cryptographically valid under that key and algorithm over exactly these bytes"
inline bool ref_verify(const KeySpec &k, jwt_alg_t a, const std::string &in, const std::string &sig) {
  const AlgInfo *ai = alg_info(a); if (!ai) return false;
  if (ai->kind != k.kind) return false;
  if (ai->kind == K_OCT) { std::string m = ref_hmac(k.oct, ai->md, in); return m.size() == sig.size() && CRYPTO_memcmp(m.data(), sig.data(), m.size()) == 0; }
  if (!k.pkey) return false;
  std::string s = sig;
  if (ai->kind == K_EC) {
    size_t w = (k.bits + 7) / 8; if (sig.size() != 2 * w) return false;
    ECDSA_SIG *es = ECDSA_SIG_new(); BIGNUM *r = BN_bin2bn((const unsigned char *)sig.data(), (int)w, nullptr), *ss = BN_bin2bn((const unsigned char *)sig.data() + w, (int)w, nullptr);
    ECDSA_SIG_set0(es, r, ss); unsigned char *der = nullptr; int dl = i2d_ECDSA_SIG(es, &der); ECDSA_SIG_free(es);
    if (dl <= 0) return false; s.assign((char *)der, dl); OPENSSL_free(der);
  }
  EVP_MD_CTX *c = EVP_MD_CTX_new(); EVP_PKEY_CTX *pc = nullptr; bool ok = false;
  const EVP_MD *md = ai->md ? EVP_get_digestbyname(ai->md) : nullptr;
  if (EVP_DigestVerifyInit(c, &pc, md, nullptr, k.pkey) == 1) {
    if (ai->pss) { EVP_PKEY_CTX_set_rsa_padding(pc, RSA_PKCS1_PSS_PADDING); EVP_PKEY_CTX_set_rsa_pss_saltlen(pc, RSA_PSS_SALTLEN_AUTO); }
    ok = EVP_DigestVerify(c, (const unsigned char *)s.data(), s.size(), (const unsigned char *)in.data(), in.size()) == 1;
  }
  EVP_MD_CTX_free(c); ERR_clear_error();
  return ok;
}
// RFC-conformant signature? (C12 gray zone): PSS salt == hash length
inline bool ref_verify_rfc(const KeySpec &k, jwt_alg_t a, const std::string &in, const std::string &sig) {
  const AlgInfo *ai = alg_info(a); if (!ai) return false;
  if (!ai->pss) return ref_verify(k, a, in, sig);
  EVP_MD_CTX *c = EVP_MD_CTX_new(); EVP_PKEY_CTX *pc = nullptr; bool ok = false;
  if (EVP_DigestVerifyInit(c, &pc, EVP_get_digestbyname(ai->md), nullptr, k.pkey) == 1) {
    EVP_PKEY_CTX_set_rsa_padding(pc, RSA_PKCS1_PSS_PADDING); EVP_PKEY_CTX_set_rsa_pss_saltlen(pc, RSA_PSS_SALTLEN_DIGEST);
    ok = EVP_DigestVerify(c, (const unsigned char *)sig.data(), sig.size(), (const unsigned char *)in.data(), in.size()) == 1;
  }
  EVP_MD_CTX_free(c); ERR_clear_error();
  return ok;
}

// token assembly
inline std::string ref_token(const KeySpec &k, jwt_alg_t a, const std::string &header_json, const std::string &payload_json) {
  std::string in = b64u_enc(header_json) + "." + b64u_enc(payload_json);
  if (a == JWT_ALG_NONE) return in + ".";
  return in + "." + b64u_enc(ref_sign(k, a, in));
}

struct TokParts { bool ok = false; std::string h, p, s, signing_input, hdec, pdec, sdec; bool h_ok = false, p_ok = false, s_ok = false; };
inline TokParts split_token(const std::string &t0) {
  TokParts r; std::string t = t0.substr(0, t0.find('\0'));
  size_t d1 = t.find('.'); if (d1 == std::string::npos) return r;
  size_t d2 = t.find('.', d1 + 1); if (d2 == std::string::npos) return r;
  r.ok = true; r.h = t.substr(0, d1); r.p = t.substr(d1 + 1, d2 - d1 - 1); r.s = t.substr(d2 + 1); r.signing_input = t.substr(0, d2);
  auto dec = [](const std::string &seg, std::string &out) { bool ok = b64_dec_lenient(seg, out) == B64Class::Ok; if (ok) out = out.substr(0, out.find('\0')); return ok; };
  r.h_ok = dec(r.h, r.hdec); r.p_ok = dec(r.p, r.pdec);
  r.s_ok = b64_dec_lenient(r.s, r.sdec) == B64Class::Ok;  // signature bytes are binary: no NUL cut
  return r;
}
// header alg as a string if the header decodes (lenient, NUL-cut) to a JSON object with a string alg
inline bool header_alg(const TokParts &tp, std::string &alg) {
  if (!tp.ok || !tp.h_ok) return false;
  J h = J::parse(tp.hdec, JSON_DECODE_ANY | JSON_ALLOW_NUL); if (!h || !json_is_object(h.p)) return false;
  json_t *a = json_object_get(h.p, "alg"); if (!a || !json_is_string(a)) return false;
  alg.assign(json_string_value(a), json_string_length(a)); return true;
}
// C01 predicate: third segment decodes to a signature valid under K and the header's algorithm over the first two segments
inline bool ref_valid(const KeySpec &k, const std::string &token, std::string *why = nullptr) {
  TokParts tp = split_token(token); std::string an;
  if (!tp.ok) { if (why) *why = "no-two-dots"; return false; }
  if (!header_alg(tp, an)) { if (why) *why = "no-header-alg"; return false; }
  const AlgInfo *ai = alg_by_name(an); if (!ai) { if (why) *why = "unknown-alg"; return false; }
  if (!tp.s_ok) { if (why) *why = "sig-undecodable"; return false; }
  bool ok = ref_verify(k, ai->alg, tp.signing_input, tp.sdec);
  if (!ok && why) *why = "crypto-invalid";
  return ok;
}

// ---------------------------------------------------------------- standard pool
struct Pool {
  std::vector<KeySpec> keys;
  const KeySpec &get(const std::string &n) const { for (auto &k : keys) if (k.name == n) return k; fprintf(stderr, "no key %s\n", n.c_str()); exit(2); }
};
inline Pool standard_pool(bool with_weak = false, bool with_offmenu = false) {
  Pool p;
  p.keys.push_back(oct_key("oct32", 32)); p.keys.push_back(oct_key("oct48", 48)); p.keys.push_back(oct_key("oct64", 64));
  p.keys.push_back(oct_key("oct32b", 32, 7)); p.keys.push_back(oct_key("oct64b", 64, 7)); p.keys.push_back(oct_key("oct77", 77));
  for (const char *n : {"rsa_2048", "rsa_2048b", "rsa_3072", "rsa_4096", "ec_p256", "ec_p256b", "ec_p384", "ec_p384b", "ec_p521", "ec_p521b", "ec_k256", "ec_k256b", "ed25519", "ed25519b", "ed448", "ed448b"})
    p.keys.push_back(load_fixture(n));
  if (with_weak) for (const char *n : {"rsa_512", "rsa_1024", "rsa_1536", "rsa_2040", "rsa_2047", "rsa_2050", "rsa_2056"}) p.keys.push_back(load_fixture(n));
  if (with_offmenu) for (const char *n : {"ec_p224", "ec_bp256", "ec_bp384"}) p.keys.push_back(load_fixture(n));
  return p;
}
inline std::vector<jwt_alg_t> algs_for(const KeySpec &k, bool gnutls_too = false) {
  std::vector<jwt_alg_t> r;
  for (auto &a : ALGS) { if (!strength_ok(k, a.alg)) continue; if (k.kind == K_EC) { bool k1 = k.crv == "secp256k1"; if (gnutls_too && (k1 || a.alg == JWT_ALG_ES256K)) continue; } r.push_back(a.alg); }
  return r;
}

}  // namespace v
