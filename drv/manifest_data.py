ENGINES = [
    {"name": "check.py", "path": "/verif/check.py", "serves_properties": [], "kind_free_text": "driver: rebuilds libjwt from /repo's working tree (ASan+UBSan / fuzzer / TSan flavors), runs harness workers, merges stats, writes evidence, replays and classifies violations against known-findings.jsonl"},
    {"name": "enum", "path": "/verif/harness", "serves_properties": ["C11"], "kind_free_text": "exhaustive enumerators over the finite domains the properties name, same oracle code as the random mode"},
]
NOTES = "Technique family: property-based testing and fuzzing (rapidcheck, libFuzzer, exhaustive enumeration, fork-per-fault allocation failure injection, TSan stress). See DESIGN.md."
NOT_APPLICABLE = {}
CLAIMS = {
    "C11": dict(engine="enum", level="exploration", design_ref="DESIGN.md section 4 C11",
                technique="exhaustive enumeration of small inputs + seeded random buffers against an independent RFC 4648 codec, under ASan/UBSan",
                text="Every byte string of length 0-3 is encoded and round-tripped, every 1-4 character string over a class-representative alphabet (quick) or all 255 NUL-free bytes (thorough) is decoded and compared with an independent codec and with the reject rules of the statement; buffer arithmetic is exercised for every length 0-4096 and random lengths to 64 KiB under ASan. Exhaustive for the enumerated domains, sampled beyond.",
                note="trusts the reference codec in vlib.h and the sanitizer runtime; inputs the statement leaves open may be rejected or decoded leniently"),
}
