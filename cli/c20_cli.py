#!/usr/bin/env python3
"""C20 - command-line tools: Hypothesis-driven subprocess tests of jwt-verify, jwt-generate, key2jwk, jwk2key
(built from /repo's working tree with ASan/UBSan).  Same worker protocol as the C++ harnesses."""
import argparse, json, os, shutil, subprocess, sys, tempfile, hashlib, re
from hypothesis import given, settings, seed, HealthCheck, strategies as st, Phase

ap = argparse.ArgumentParser()
ap.add_argument("--tools"); ap.add_argument("--helper"); ap.add_argument("--tier", default="quick"); ap.add_argument("--seed", type=int, default=1)
ap.add_argument("--worker", type=int, default=0); ap.add_argument("--nworkers", type=int, default=1); ap.add_argument("--out"); ap.add_argument("--known"); ap.add_argument("--replay")
A = ap.parse_args()
THOROUGH = A.tier == "thorough"
WORK = tempfile.mkdtemp(prefix="c20-", dir=os.path.dirname(A.out) if A.out else None)
ENV = dict(os.environ); ENV["ASAN_OPTIONS"] = "detect_leaks=0:exitcode=99:abort_on_error=0"; ENV["UBSAN_OPTIONS"] = "halt_on_error=1:exitcode=99:print_stacktrace=1"

stats = {"evaluations": 0, "nontrivial_total": 0, "distinct_by_construction": 0, "classes": {}, "extra": {}, "known_hits": {}, "samples": [], "violations": []}
fps = set()
known = set(l.strip() for l in open(A.known)) if A.known and os.path.exists(A.known) else set()


def cls(k, n=1): stats["classes"][k] = stats["classes"].get(k, 0) + n
def nontrivial(key): stats["nontrivial_total"] += 1; fps.add(int(hashlib.sha256(repr(key).encode()).hexdigest()[:16], 16))
def sample(s):
    if len(stats["samples"]) < 8: stats["samples"].append(s)
def is_known(sig): return any(sig == k or (k.endswith("*") and sig.startswith(k[:-1])) for k in known)


def _low_fd_limit():
    # the tools run with a small (legal) limit on open descriptors: a descriptor leaked per token or per key bounds "any number" of them
    import resource
    hard = resource.getrlimit(resource.RLIMIT_NOFILE)[1]; resource.setrlimit(resource.RLIMIT_NOFILE, (64, hard))

def tool(name, args, stdin=None, prov=None, timeout=300):
    env = dict(ENV)
    if prov: env["JWT_CRYPTO"] = prov
    r = subprocess.run([os.path.join(A.tools, name)] + args, input=stdin, stdout=subprocess.PIPE, stderr=subprocess.PIPE, env=env, timeout=timeout, cwd=WORK, preexec_fn=_low_fd_limit)
    san = b"Sanitizer" in r.stderr or b"runtime error:" in r.stderr   # (not the exit status: jwt-verify exits with the number of failing tokens, which can be any value)
    return r.returncode, r.stdout.decode(errors="replace"), r.stderr.decode(errors="replace"), san


def helper(args):
    r = subprocess.run([A.helper] + args, stdout=subprocess.PIPE, stderr=subprocess.PIPE, env=ENV, cwd=WORK, timeout=600)
    return r.returncode, r.stdout.decode(errors="replace").strip()


class Fail(Exception):
    def __init__(self, sig, what, case): self.sig, self.what, self.case = sig, what, case


# ---------------------------------------------------------------- fixtures made once per process
KEYS = {}   # name -> dict(pem, pub, jwk files with/without alg)
def make_key(name, typ, alg, short=0):
    pre = os.path.join(WORK, name)
    if typ.startswith("oct"):
        helper(["gen", typ, pre, "0"]); src = pre + ".bin"; pub = src
    elif typ == "pss":
        helper(["genpss", pre]); src = pre + ".pem"; pub = pre + "_pub.pem"
    elif typ.startswith("rsa"):
        helper(["copyfix", "rsa_" + typ[3:], pre]); src = pre + ".pem"; pub = pre + "_pub.pem"
    else:
        helper(["gen", typ, pre, str(short)]); src = pre + ".pem"; pub = pre + "_pub.pem"
    k = {"name": name, "type": typ, "alg": alg, "src": src, "pubsrc": pub}
    for form in ("priv", "pub"):
        for with_alg in (True, False):
            rc, js = helper(["mkjwk", src if form == "priv" else pub, alg if with_alg else "-", form])
            p = f"{pre}_{form}_{'alg' if with_alg else 'noalg'}.json"; open(p, "w").write(js); k[f"jwk_{form}_{'alg' if with_alg else 'noalg'}"] = p
    KEYS[name] = k
    return k


def setup_keys():
    make_key("hs", "oct64", "HS256")
    make_key("ec", "P-256", "ES256"); make_key("rsa", "rsa2048", "RS256"); make_key("ed", "ed25519", "EdDSA")
    # a second key of each kind, for key files that hold more than one key
    make_key("hs_2", "oct64", "HS256"); make_key("ec_2", "P-256", "ES256"); make_key("rsa_2", "rsa2048b", "RS256"); make_key("ed_2", "ed25519", "EdDSA")
    if THOROUGH:
        make_key("hs5", "oct64", "HS512"); make_key("ec3", "P-384", "ES384"); make_key("ec5", "P-521", "ES512"); make_key("ed4", "ed448", "EdDSA"); make_key("k1", "secp256k1", "ES256K"); make_key("ps", "rsa2048", "PS256")


GOOD, BAD, LONG_GOOD = [], [], []
def setup_tokens():
    k = KEYS["hs"]
    for n in (9000, 20000):   # tokens beyond a stdio buffer
        rc, t = helper(["token", k["src"], "HS256", json.dumps({"big": "x" * n})]); LONG_GOOD.append(t)
    want = {8188, 8189, 8190, 8191, 8192, 8193, 8194, 16381, 16382, 16383, 16384, 16385}   # total lengths right at BUFSIZ (8192) and 2*BUFSIZ, +-2
    for kid in ("", "k", "kk"):   # three header lengths make every total length reachable (unpadded base64url never has length 1 mod 4)
        for n in list(range(6040, 6080)) + list(range(12180, 12222)):
            if not want: break
            rc, t = helper(["token", k["src"], "HS256", json.dumps({"b": "x" * n})] + ([kid] if kid else []))
            if len(t) in want: want.discard(len(t)); LONG_GOOD.append(t)
    stats["extra"]["long_token_lengths"] = sorted(len(t) for t in LONG_GOOD)
    for i in range(40):
        rc, t = helper(["token", k["src"], "HS256", json.dumps({"n": i, "sub": "c20"})]); GOOD.append(t)
    for i in range(40):
        t = GOOD[i]
        BAD.append([t[:-2] + ("AA" if not t.endswith("AA") else "BB"), t.replace(".", "", 1), "garbage%d" % i, t[: len(t) // 2], "e30.e30." + t.split(".")[2], t + "x",
                    t + "\r", t + "\rAAAA", t + "\t", t + " "][i % 10])   # a good token followed by a carriage return / tab / space (and more): not the token any more


# ---------------------------------------------------------------- (1) exit status of jwt-verify
LENS = [0, 1, 2, 3, 20, 254, 255, 256, 257, 300, 511, 512, 513, 768, 1024, 1100]
def run_verify_case(case):
    n, nbad, how, quiet, seedv = case["n"], case["nbad"], case["how"], case["quiet"], case["mix"]
    nbad = min(nbad, n)
    toks = []; bad_positions = set()
    # deterministic placement from the mix value
    x = seedv
    idxs = list(range(n))
    for i in range(n - 1, 0, -1):
        x = (x * 6364136223846793005 + 1442695040888963407) % (1 << 64); j = x % (i + 1); idxs[i], idxs[j] = idxs[j], idxs[i]
    bad_positions = set(idxs[:nbad])
    for i in range(n): toks.append(BAD[(i + seedv) % len(BAD)] if i in bad_positions else GOOD[(i + seedv) % len(GOOD)])
    nlong = 0
    if case.get("long") and n:   # some of the good tokens are long ones (still valid)
        goodpos = [i for i in range(n) if i not in bad_positions]
        # prefer good positions that are directly followed by a failing token: a reader that glues lines together would skip it
        goodpos.sort(key=lambda i: 0 if (i + 1) in bad_positions else 1)
        for j, i in enumerate(goodpos[: 1 + seedv % 4]):
            toks[i] = LONG_GOOD[(seedv // 4 + j) % len(LONG_GOOD)]; nlong += 1
    vmode = case.get("vmode", 0)   # 0: plain / -q; 1: -v (decoded header and payload shown); 2: -v and -p CMD (shown through a command); 3: the long spellings of 2
    args = ["-k", KEYS["hs"]["jwk_priv_alg"]] + (["-q"] if quiet and not vmode else []) + {0: [], 1: ["-v"], 2: ["-v", "-p", "cat"], 3: ["--verbose", "--print=cat"]}[vmode]
    if vmode: cls("verify-lists-with-verbose/print")
    if how == "args": rc, out, err, san = tool("jwt-verify", args + toks)
    else: rc, out, err, san = tool("jwt-verify", args + ["-"], stdin=("\n".join(toks) + ("\n" if toks and not (seedv & 1) else "")).encode())   # last line with or without newline
    stats["evaluations"] += 1; cls("verify-lists"); cls("verify-tokens", n)
    if nbad >= 255: nontrivial(("verify", n, nbad, how, quiet)); cls("lists-with>=255-failing-tokens")
    elif 0 < nbad or nlong: nontrivial(("verify", n, nbad, how, quiet, seedv % 7, nlong))
    if nlong: cls("lists-with-long-valid-tokens")
    sample({"tool": "jwt-verify", "tokens": n, "failing": nbad, "how": how, "quiet": quiet, "exit": rc})
    if san: raise Fail("C20:sanitizer-report:jwt-verify", err[-1500:], case)
    if n == 0:
        if how == "args" and rc == 0: raise Fail("C20:jwt-verify:exit0-without-tokens", "no token given but exit status 0", case)
        return
    want_zero = nbad == 0
    if (rc == 0) != want_zero:
        raise Fail("C20:jwt-verify:exit-status:" + ("zero-although-tokens-failed" if rc == 0 else "nonzero-although-all-verified" + (":long-token-on-" + how if nlong else "")), f"{n} tokens, {nbad} failing, {nlong} long valid tokens, exit status {rc}", case)


# ---------------------------------------------------------------- (2) option spellings, generate -> verify
def spell(opt_short, opt_long, val, style):
    return {0: ["-" + opt_short, val], 1: ["-" + opt_short + val], 2: ["--" + opt_long + "=" + val], 3: ["--" + opt_long, val]}[style]


CLAIMS = ["i:num=42", "s:name=val", "b:flag=true", "i:exp=4102444800", "i:exp=2147483648", "i:big=9007199254740993", "i:neg=-2147483649", "b:flag=false", "i:hex=0x7fffffffffff", "s:sub=a b", "i:nbf=-9223372036854775807", "i:exp=9223372036854775807"]
def run_genver_case(case):
    k = KEYS[case["key"]]; with_alg = case["key_has_alg"]; prov = case["prov"]
    if prov == "gnutls" and k["alg"] == "ES256K": prov = "openssl"
    gk = k["jwk_priv_alg" if with_alg else "jwk_priv_noalg"]; vk = k["jwk_pub_alg" if with_alg else "jwk_pub_noalg"]
    if k["type"].startswith("oct"): vk = gk
    multi = case.get("multi", 0)
    if multi and (case["key"] + "_2") in KEYS:
        # one key file with several keys, given to both tools ("the same key file"): own private key with the other key's public or private half, in either order
        o = KEYS[case["key"] + "_2"]; sfx = "alg" if with_alg else "noalg"; J = lambda path: json.load(open(path))
        own_priv, own_pub, oth_priv, oth_pub = J(k["jwk_priv_" + sfx]), J(k["jwk_pub_" + sfx]), J(o["jwk_priv_" + sfx]), J(o["jwk_pub_" + sfx])
        keys = {1: [own_priv, oth_pub], 2: [oth_pub, own_priv], 3: [own_pub, oth_priv], 4: [oth_priv, own_priv], 5: [own_priv, own_pub], 6: [{"kty": "EC", "crv": "P-256", "x": "AA", "y": "AA"}, own_priv]}[multi]
        counter[0] += 1; mf = os.path.join(WORK, f"multi{counter[0]}.json"); json.dump({"keys": keys}, open(mf, "w")); gk = vk = mf; cls("multi-key-files")
    gargs = spell("k", "key", gk, case["k_style_g"])
    if not with_alg or case["always_alg"]: gargs += spell("a", "algorithm", k["alg"], case["a_style_g"])
    if case["no_iat"]: gargs += [["-n"], ["--no-iat"]][case["flag_style"]]
    if case.get("claim"): gargs += spell("c", "claim", ["i:num=42", "s:name=val", "b:flag=true"][case["claim"] - 1], case["c_style"])
    seen_keys = set()
    for ci in case.get("claims", []):   # several claims of every type in one run; integers as strtol(…, 0) reads them, far-future expiry included
        ck = CLAIMS[ci % len(CLAIMS)].split("=")[0].split(":")[1]
        if ck in seen_keys: continue   # the same claim twice is refused (EXIST), rightly
        seen_keys.add(ck)
        gargs += spell("c", "claim", CLAIMS[ci % len(CLAIMS)], case["c_style"]); cls("generate-with-claim:" + CLAIMS[ci % len(CLAIMS)].split("=")[0])
    if case["json"]: gargs += spell("j", "json", '{"sub":"x","arr":[1,2]}', case["j_style"])
    if case.get("print_g"): gargs += spell("p", "print", "cat", case["p_style_g"])
    if case["quiet_g"]: gargs += [["-q"], ["--quiet"]][case["flag_style"]]
    elif case.get("print_g") and case.get("verbose_g"): gargs += [["-v"], ["--verbose"]][case["flag_style"]]
    rc, out, err, san = tool("jwt-generate", gargs, prov=prov)
    stats["evaluations"] += 1; cls("generate+verify-pairs"); cls("key:" + k["type"])
    short_with_arg = case["k_style_g"] in (0, 1) or case["a_style_g"] in (0, 1) or case["a_style_v"] in (0, 1)
    if short_with_arg: nontrivial(("genver", case["key"], with_alg, case["k_style_g"], case["a_style_g"], case["a_style_v"], case["k_style_v"], prov)); cls("short-spelled-options-with-arguments")
    sample({"tool": "jwt-generate", "args": gargs, "exit": rc})
    if san: raise Fail("C20:sanitizer-report:jwt-generate", err[-1500:], case)
    if rc != 0 and multi: cls("multi-key-files:generate-refuses"); return   # nothing printed: nothing to verify
    if rc != 0: raise Fail("C20:jwt-generate:fails-with-documented-options:" + ("short" if case["a_style_g"] in (0, 1) else "long") + "-a" + (",print-" + ("short" if case["p_style_g"] in (0, 1) else "long") if case.get("print_g") else ""), f"args={gargs} exit={rc} stderr={err[-300:]}", case)
    tok = out.strip().split("\n")[-1].strip()
    if case["quiet_g"] and out.strip() != tok: raise Fail("C20:jwt-generate:quiet-prints-more-than-token", out[:300], case)
    hrc, hv = helper(["valid", k["src"], tok]) if not multi else (0, "")
    if hrc != 0: raise Fail("C20:jwt-generate:token-invalid-under-key", f"token {tok[:80]}... is {hv}", case)
    vargs = spell("k", "key", vk, case["k_style_v"])
    if not with_alg or case["always_alg"]: vargs += spell("a", "algorithm", k["alg"], case["a_style_v"])
    if case.get("print_v"): vargs += spell("p", "print", "cat", case["p_style_v"])
    vargs += {0: [], 1: [["-q"], ["--quiet"]][case["flag_style"]], 2: [["-v"], ["--verbose"]][case["flag_style"]]}[case["vq"]]
    rc2, out2, err2, san2 = tool("jwt-verify", vargs + [tok], prov=prov)
    if san2: raise Fail("C20:sanitizer-report:jwt-verify", err2[-1500:], case)
    if rc2 != 0:
        which = "short" if case["a_style_v"] in (0, 1) and (not with_alg or case["always_alg"]) else "long-or-none"
        if case.get("print_v"): which += ",print-" + ("short" if case["p_style_v"] in (0, 1) else "long")
        raise Fail(f"C20:jwt-verify:rejects-token-of-jwt-generate:{which}-a", f"verify args={vargs} exit={rc2} out={out2[-200:]} err={err2[-300:]}", case)


# ---------------------------------------------------------------- (3) key2jwk / jwk2key
KEYTYPES = ["rsa2048", "rsa3072", "rsa4104", "rsa8192", "P-256", "P-384", "P-521", "secp256k1", "ed25519", "ed448", "oct32", "oct48", "oct64", "oct100", "oct512", "pss",
            "oct33:0a", "oct48:0a", "oct64:0a", "oct40:0d", "oct64:00", "oct32:0a", "oct50:20",
            # the same kinds of key in the other standard file encodings: EC public point compressed / hybrid, traditional (SEC1 / PKCS#1) private key PEM
            "P-256/compressed", "P-384/compressed", "P-521/compressed", "secp256k1/compressed", "P-521/hybrid", "P-256/hybrid", "P-256/trad", "P-521/trad", "rsa2048/trad"]   # oct keys are arbitrary bytes: newline / CR / NUL / space at the end
POOL = {}   # (type, short, slot) -> (priv/bin path, pub path): generated once per process so that a case is deterministic
def setup_pool():
    d = os.path.join(WORK, "pool"); os.makedirs(d)
    for typ in KEYTYPES:
        for short in (0, 1):
            for slot in range(3 if typ.startswith(("P-", "secp")) else 1):
                if short and not typ.startswith(("P-", "secp")): continue
                pre = os.path.join(d, f"{typ.replace('/', '_')}-{short}-{slot}")
                if typ.startswith("oct"): helper(["gen", typ, pre, "0"]); POOL[(typ, short, slot)] = (pre + ".bin", pre + ".bin")
                elif typ == "pss": helper(["genpss", pre]); POOL[(typ, short, slot)] = (pre + ".pem", pre + "_pub.pem")
                elif typ == "rsa2048/trad": helper(["gen", "rsa2048", pre, "0", "trad"]); POOL[(typ, short, slot)] = (pre + ".pem", pre + "_pub.pem")
                elif typ.startswith("rsa"): helper(["copyfix", "rsa_" + typ[3:], pre]); POOL[(typ, short, slot)] = (pre + ".pem", pre + "_pub.pem")
                else:
                    base, _, form = typ.partition("/"); pre2 = pre
                    helper(["gen", base, pre2, str(short)] + ([form] if form else [])); POOL[(typ, short, slot)] = (pre2 + ".pem", pre2 + "_pub.pem")


counter = [0]
def run_convert_case(case):
    counter[0] += 1; d = os.path.join(WORK, f"conv{counter[0]}"); os.makedirs(d)
    srcs = []
    if "key_material" in case:   # replay: the very key files of the failing run
        for i, (fn, hx) in enumerate(case["key_material"]):
            p = os.path.join(d, f"k{i}" + os.path.splitext(fn)[1]); open(p, "wb").write(bytes.fromhex(hx)); srcs.append(p)
    else:
        for i, (typ, form, short, slot) in enumerate(case["keys"]):
            isec = typ.startswith(("P-", "secp")); key = (typ, 1 if (short and isec) else 0, slot % 3 if isec else 0)
            src = POOL[key][0 if form == "priv" else 1]
            p = os.path.join(d, f"k{i}" + os.path.splitext(src)[1]); shutil.copy(src, p); srcs.append(p)
            if isec and short: cls("ec-keys-with-leading-zero-coordinate"); nontrivial(("short-ec", typ, form, slot % 3, A.worker))
    outf = os.path.join(d, "out.json")
    oargs = spell("o", "output", outf, case["o_style"]) + ([["-q"], ["--quiet"]][case["flag_style"]] if case["quiet"] else [])
    rc, out, err, san = tool("key2jwk", oargs + srcs)
    stats["evaluations"] += 1; cls("key2jwk-invocations"); cls("keys-converted", len(srcs))
    for kk in case["keys"]: cls("convert:" + kk[0])
    nontrivial(("convert", tuple(map(tuple, case["keys"])), case["o_style"], A.worker))
    sample({"tool": "key2jwk", "keys": case["keys"], "exit": rc})
    case = dict(case); case["key_material"] = [(os.path.basename(p), open(p, "rb").read().hex()) for p in srcs]
    if san: raise Fail("C20:sanitizer-report:key2jwk", err[-1500:], case)
    if rc != 0 or not os.path.exists(outf): raise Fail("C20:key2jwk:fails", f"exit={rc} err={err[-300:]}", case)
    hrc, hv = helper(["jwkcheck", outf] + srcs)
    if hrc != 0:
        bad = [l for l in hv.split("\n") if not l.endswith(" ok")]
        kind = re.sub(r"[0-9]+", "N", bad[0].split(" ", 1)[1]) if bad and " " in bad[0] else hv[:40]
        raise Fail("C20:key2jwk:jwk-" + kind, f"jwkcheck: {hv[:400]}", case)
    # library import + jwk2key writes back the identical key
    kd = os.path.join(d, "back"); os.makedirs(kd)
    rc2, out2, err2, san2 = tool("jwk2key", spell("d", "dir", kd, case["d_style"]) + [outf])
    if san2: raise Fail("C20:sanitizer-report:jwk2key", err2[-1500:], case)
    if rc2 != 0: raise Fail("C20:jwk2key:fails", f"exit={rc2} err={err2[-300:]}", case)
    doc = json.load(open(outf)); files = os.listdir(kd)
    for i, jk in enumerate(doc["keys"]):
        kid = jk.get("kid"); m = [f for f in files if kid and kid in f]
        if len(m) != 1: raise Fail("C20:jwk2key:key-not-written-back(import-error?)", f"key {i} ({case['keys'][i]}) kid={kid}: files={files[:6]} stderr={err2[-200:]}", case)
        hrc, hv = helper(["cmp", srcs[i], os.path.join(kd, m[0])])
        if hrc != 0: raise Fail("C20:jwk2key:written-key-differs:" + hv, f"key {i} ({case['keys'][i]}): {hv}", case)
    shutil.rmtree(d, ignore_errors=True)


# ---------------------------------------------------------------- hypothesis plumbing
last = {}
def guarded(fn, case):
    try:
        fn(case)
    except Fail as f:
        if is_known(f.sig): stats["known_hits"][f.sig] = stats["known_hits"].get(f.sig, 0) + 1; return
        last["f"] = f
        raise AssertionError(f.sig)


def run_property(fn, strategy, n, name):
    last.clear()
    @seed(A.seed * 1000 + A.worker)
    @settings(max_examples=n, database=None, deadline=None, derandomize=False, suppress_health_check=list(HealthCheck), report_multiple_bugs=False, print_blob=False)
    @given(strategy)
    def prop(case): guarded(fn, case)
    try:
        prop()
    except AssertionError:
        f = last.get("f")
        if f: stats["violations"].append({"signature": f.sig, "what": f.what, "replay": {"kind": name, "case": f.case}})
    except Exception as e:  # harness problem: surface it
        import traceback; traceback.print_exc(); stats["violations"].append({"signature": "C20:harness-error:" + type(e).__name__, "what": str(e)[:300], "replay": {"kind": name}})


verify_cases = st.fixed_dictionaries({"n": st.one_of(st.sampled_from(LENS), st.integers(0, 1100)), "nbad": st.one_of(st.sampled_from([0, 0, 1, 2, 255, 256, 257, 511, 512, 513, 768, 1024]), st.integers(0, 1100)),
                                      "how": st.sampled_from(["args", "stdin"]), "quiet": st.booleans(), "mix": st.integers(0, 1 << 30), "long": st.booleans(), "vmode": st.sampled_from([0, 0, 0, 1, 2, 3])})
sty = st.integers(0, 3)
def genver_cases():
    return st.fixed_dictionaries({"key": st.sampled_from(sorted(KEYS)), "key_has_alg": st.booleans(), "always_alg": st.booleans(), "prov": st.sampled_from(["openssl", "gnutls"]), "k_style_g": sty, "a_style_g": sty, "k_style_v": sty, "a_style_v": sty,
                                  "c_style": sty, "j_style": sty, "no_iat": st.booleans(), "multi": st.sampled_from([0, 0, 0, 1, 2, 3, 4, 5, 6]), "claim": st.just(0), "claims": st.lists(st.integers(0, 11), min_size=0, max_size=3), "json": st.booleans(), "quiet_g": st.booleans(), "flag_style": st.integers(0, 1), "vq": st.integers(0, 2),
                                  "print_g": st.booleans(), "p_style_g": sty, "verbose_g": st.booleans(), "print_v": st.booleans(), "p_style_v": sty})
convert_cases = st.fixed_dictionaries({"keys": st.lists(st.tuples(st.sampled_from(KEYTYPES), st.sampled_from(["priv", "pub"]), st.booleans(), st.integers(0, 2)), min_size=1, max_size=8), "o_style": sty, "d_style": sty, "quiet": st.booleans(), "flag_style": st.integers(0, 1)})

def onebad_run(how, toks):
    args = ["-q", "-k", KEYS["hs"]["jwk_priv_alg"]]
    return tool("jwt-verify", args + toks) if how == "args" else tool("jwt-verify", args + ["-"], stdin=("\n".join(toks) + "\n").encode())

FNS = {"verify": run_verify_case, "genver": run_genver_case, "convert": run_convert_case}

def main():
    setup_keys(); setup_tokens()
    if not A.replay: setup_pool()
    if A.replay:
        r = json.load(open(A.replay)); kind = r.get("kind"); case = r.get("case")
        if kind == "longlist":
            bad = 0
            for t in LONG_GOOD:
                if len(t) != case["length"]: continue
                for tail in ([], [BAD[0]], [GOOD[0], BAD[1]]):
                    rc, out, err, san = tool("jwt-verify", ["-q", "-k", KEYS["hs"]["jwk_priv_alg"], "-"], stdin=("\n".join([t] + tail) + "\n").encode())
                    if san or (rc == 0) != (not any(x in BAD for x in tail)): bad = 1
            return 3 if bad else 0
        if kind == "onebad":
            toks = [GOOD[1], GOOD[2]]; toks.insert(case["pos"], BAD[case["j"]]); rc, out, err, san = onebad_run(case["how"], toks)
            return 3 if san or rc == 0 else 0
        if kind == "lastline":
            pre = [[], [GOOD[0]], [GOOD[1], BAD[0]]][{0: 0, 1: 1, 2: 2}[case["pre"]]]; lasttok = [GOOD[2] + "x", GOOD[3], GOOD[4][:-1]][case["last"]]; last_ok = case["last"] == 1
            rc, out, err, san = tool("jwt-verify", ["-q", "-k", KEYS["hs"]["jwk_priv_alg"], "-"], stdin=("\n".join(pre + [lasttok]) + case["nl"]).encode())
            return 3 if san or (rc == 0) != (last_ok and case["pre"] != 2) else 0
        if kind not in FNS or case is None: return 2
        if "keys" in case: case["keys"] = [tuple(x) for x in case["keys"]]
        try: FNS[kind](case)
        except Fail as f: print("replay:", f.sig, f.what[:300], file=sys.stderr); return 3
        return 0
    nv, ng, nc = (100, 150, 100) if THOROUGH else (8, 12, 10)
    run_property(run_verify_case, verify_cases, nv, "verify")
    # deterministic boundary lists (always run): 255/256/257/512 failing tokens
    if A.worker < 8:
        for i, nb in enumerate([255, 256, 257, 512]):
            if i % 4 == A.worker % 4:
                for how in (["args", "stdin"] if A.worker < 4 else ["stdin" if A.worker % 2 else "args"]):
                    case = {"n": nb + (A.worker // 4), "nbad": nb, "how": how, "quiet": bool(A.worker & 1), "mix": A.seed}
                    try: guarded(run_verify_case, case)
                    except AssertionError:
                        f = last.get("f"); stats["violations"].append({"signature": f.sig, "what": f.what, "replay": {"kind": "verify", "case": f.case}})
    if A.worker in (8, 9, 10, 11):   # every token verifies and is shown through a command: 100 / 300 tokens, as arguments and on stdin
        case = {"n": 100 if A.worker < 10 else 300, "nbad": 0, "how": "stdin" if A.worker & 1 else "args", "quiet": False, "mix": A.seed, "vmode": 2 + (A.worker & 1)}
        try: guarded(run_verify_case, case)
        except AssertionError:
            f = last.get("f"); stats["violations"].append({"signature": f.sig, "what": f.what, "replay": {"kind": "verify", "case": f.case}})
    if A.worker in (12, 13):   # the last line on stdin, with and without a final newline: a token that is good but for its LAST character
        for nl in ("", "\n"):
            for pre in ([], [GOOD[0]], [GOOD[1], BAD[0]]):
                for lasttok, last_ok in ((GOOD[2] + "x", False), (GOOD[3], True), (GOOD[4][:-1], False)):
                    toks = pre + [lasttok]; want_zero = last_ok and not any(t in BAD for t in pre)
                    rc, out, err, san = tool("jwt-verify", ["-q", "-k", KEYS["hs"]["jwk_priv_alg"], "-"] if A.worker == 12 else ["-k", KEYS["hs"]["jwk_priv_alg"], "-"], stdin=("\n".join(toks) + nl).encode())
                    stats["evaluations"] += 1; cls("last-line-lists"); nontrivial(("lastline", nl, len(pre), last_ok, A.worker))
                    if san or (rc == 0) != want_zero:
                        stats["violations"].append({"signature": "C20:jwt-verify:exit-status:" + ("zero-although-tokens-failed" if rc == 0 else "nonzero-although-all-verified") + ":last-line-of-stdin", "what": f"stdin list of {len(toks)} tokens, final newline {'present' if nl else 'absent'}, last token {'valid' if last_ok else 'valid but for its last character'}: exit {rc}", "replay": {"kind": "lastline", "case": {"nl": nl, "pre": len(pre), "last": [GOOD[2] + "x", GOOD[3], GOOD[4][:-1]].index(lasttok)}}})
    if A.worker in (14, 15) or (A.nworkers <= 14 and A.worker < 2):   # exactly ONE failing token, of every kind (a damaged signature, a cut token, a token followed by CR / tab / space ...), in a list that otherwise verifies
        how = "stdin" if A.worker & 1 else "args"
        for j in range(10):
            for pos in (0, 1, 2):
                toks = [GOOD[1], GOOD[2]]; toks.insert(pos, BAD[j]); rc, out, err, san = onebad_run(how, toks)
                stats["evaluations"] += 1; cls("lists-with-one-failing-token-of-each-kind"); nontrivial(("onebad", j, pos, how))
                if san or rc == 0:
                    stats["violations"].append({"signature": "C20:jwt-verify:exit-status:zero-although-tokens-failed:one-failing-token-kind-%d" % j, "what": f"list of 3 tokens ({how}), token {pos} is not a valid token ({BAD[j][-12:]!r} at its end): exit {rc}", "replay": {"kind": "onebad", "case": {"j": j, "pos": pos, "how": how}}})
    for li in range(len(LONG_GOOD)):
        if li % A.nworkers != A.worker: continue
        for tail in ([], [BAD[0]], [GOOD[0], BAD[1]]):
            toks = [LONG_GOOD[li]] + tail
            rc, out, err, san = tool("jwt-verify", ["-q", "-k", KEYS["hs"]["jwk_priv_alg"], "-"], stdin=("\n".join(toks) + "\n").encode())
            stats["evaluations"] += 1; cls("long-token-boundary-lists"); nontrivial(("longlist", len(LONG_GOOD[li]), len(tail)))
            nb = sum(1 for t in tail if t in BAD)
            if san or (rc == 0) != (nb == 0):
                stats["violations"].append({"signature": "C20:jwt-verify:exit-status:" + ("zero-although-tokens-failed" if rc == 0 else "nonzero-although-all-verified") + ":long-token-on-stdin", "what": f"stdin list [long good token of {len(LONG_GOOD[li])} chars] + {len(tail)} more ({nb} failing): exit {rc}", "replay": {"kind": "longlist", "case": {"length": len(LONG_GOOD[li]), "tail": len(tail)}}})
    if A.worker in (2, 3):
        case = {"n": 3, "nbad": 0, "how": "stdin" if A.worker == 2 else "args", "quiet": True, "mix": A.seed, "long": True}
        try: guarded(run_verify_case, case)
        except AssertionError:
            f = last.get("f"); stats["violations"].append({"signature": f.sig, "what": f.what, "replay": {"kind": "verify", "case": f.case}})
    if not stats["violations"]: run_property(run_genver_case, genver_cases(), ng, "genver")
    if not stats["violations"]: run_property(run_convert_case, convert_cases, nc, "convert")
    # many keys in one key2jwk / jwk2key run: 255, 256, 257 key files (counts at which a narrow counter or a fixed table gives out)
    if not stats["violations"] and A.worker in (4, 5, 6):
        n = {4: 255, 5: 256, 6: 257}[A.worker]; types = ["oct32", "ed25519", "P-256", "oct48:0a", "P-521/compressed", "rsa2048", "rsa8192", "rsa4104"]
        case = {"keys": [(types[i % len(types)], "priv" if i % 3 else "pub", bool(i & 1), i % 3) for i in range(n)], "o_style": 0, "d_style": 0, "quiet": True, "flag_style": 0}
        cls("key2jwk-runs-with-255-257-keys")
        try: guarded(run_convert_case, case)
        except AssertionError:
            f = last.get("f"); stats["violations"].append({"signature": f.sig, "what": f.what, "replay": {"kind": "convert", "case": f.case}})
    # usage / list options of every tool in both spellings
    if A.worker == 0:
        for t, opts in (("jwt-verify", ["-h", "--help", "-l", "--list"]), ("jwt-generate", ["-h", "--help", "-l", "--list"]), ("key2jwk", ["-h", "--help", "-l", "--list"]), ("jwk2key", ["-h", "--help"])):
            for o in opts:
                rc, out, err, san = tool(t, [o]); stats["evaluations"] += 1; cls("help/list-options")
                if rc != 0 or san: stats["violations"].append({"signature": f"C20:{t}:{o}-fails", "what": f"exit={rc}", "replay": {"kind": "none"}})
    return 0


rc = main()
if A.out:
    json.dump(stats, open(A.out, "w"))
    import struct
    open(A.out + ".fp", "wb").write(b"".join(struct.pack("<Q", x) for x in fps))
shutil.rmtree(WORK, ignore_errors=True)
sys.exit(rc if rc else (3 if stats["violations"] else 0))
