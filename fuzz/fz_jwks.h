// shared by fz_jwks_raw / fz_jwks_shape (C07): entry points + keyring well-formedness oracle
#pragma once
#include "vfuzz.h"
#include <sys/mman.h>
#include <fcntl.h>
using namespace vf;
#include <malloc.h>
static std::string ledger_dump() { std::string r = std::to_string(guard_live().size()) + " live:"; int n = 0; for (void *p : guard_live()) { if (n++ > 6) break; size_t u = malloc_usable_size(p); r += " [" + std::to_string(u) + ":" + jstr(std::string((const char *)p, u < 24 ? u : 24)) + "]"; } return r; }

static Pool &POOL = *new Pool;
static std::string GOOD_OCT;  // a good key to pre-populate sets with

static void init_jwks() {
  static bool done = false; if (done) return; done = true;
  finit(); POOL = standard_pool();
  JwkOpts o; o.kid = "pre"; GOOD_OCT = jwk_json(POOL.get("oct64"), o);
}

static void use_item(const jwk_item_t *it) {
  // "usable key object": hand it to a checker and verify something; must return, never crash
  jwk_key_type_t kty = jwks_item_kty(it);
  jwt_alg_t a = jwks_item_alg(it);
  if (a == JWT_ALG_NONE || a >= JWT_ALG_INVAL) {
    int bits = jwks_item_key_bits(it);
    a = kty == JWK_KEY_TYPE_OCT ? JWT_ALG_HS256 : kty == JWK_KEY_TYPE_RSA ? JWT_ALG_RS256 : kty == JWK_KEY_TYPE_OKP ? JWT_ALG_EDDSA : bits == 384 ? JWT_ALG_ES384 : bits == 521 ? JWT_ALG_ES512 : JWT_ALG_ES256;
    jwt_checker_t *ch = jwt_checker_new();
    if (!jwt_checker_setkey(ch, a, it)) {
      std::string tok = b64u_enc(std::string("{\"alg\":\"") + jwt_alg_str(a) + "\"}") + "." + b64u_enc("{}") + "." + b64u_enc(std::string(a == JWT_ALG_ES384 ? 96 : a == JWT_ALG_ES512 ? 132 : 64, 'x'));
      jwt_checker_verify(ch, tok.c_str());
    }
    jwt_checker_free(ch);
  } else {
    jwt_checker_t *ch = jwt_checker_new();
    if (!jwt_checker_setkey(ch, JWT_ALG_NONE, it)) {
      std::string tok = b64u_enc(std::string("{\"alg\":\"") + jwt_alg_str(a) + "\"}") + "." + b64u_enc("{}") + "." + b64u_enc(std::string(64, 'x'));
      jwt_checker_verify(ch, tok.c_str());
    }
    jwt_checker_free(ch);
  }
  // Signing is attempted only with private keys that OpenSSL itself finds consistent (EC/OKP: cheap pairwise check).
  // A JWK whose private members contradict each other imports without error (nothing in the statement forbids that)
  // and makes nettle assert inside RSA-CRT when used for signing under GnuTLS: that is outside C07, which is about
  // the load call and the shape of the keyring; signing with well-formed keys is C05/C08's business.
  if (jwks_item_is_private(it) && kty != JWK_KEY_TYPE_RSA) {
    bool consistent = kty == JWK_KEY_TYPE_OCT;
    if (!consistent && jwks_item_pem(it)) { EVP_PKEY *pk = pem_to_pkey(jwks_item_pem(it), true); if (pk) { EVP_PKEY_CTX *c = EVP_PKEY_CTX_new_from_pkey(nullptr, pk, nullptr); consistent = c && EVP_PKEY_pairwise_check(c) == 1; EVP_PKEY_CTX_free(c); EVP_PKEY_free(pk); ERR_clear_error(); } }
    if (consistent) {
      jwt_builder_t *b = jwt_builder_new();
      if (a != JWT_ALG_NONE && a < JWT_ALG_INVAL && !jwt_builder_setkey(b, jwks_item_alg(it) == a ? JWT_ALG_NONE : a, it)) { char *t = jwt_builder_generate(b); app_free(t); }
      jwt_builder_free(b);
    }
  }
}

// entry: 0 create_strn 1 load_strn(existing) 2 create(cstr) 3 load(existing,cstr) 4 fromfp 5 fromfile(memfd)
//        6 load_fromfp(existing) 7 load_fromfile(existing); 4/5 alternate between jwks_create_from* and jwks_load_from*(NULL)
static void load_with_oracle_inner(int entry, int prov, const std::string &bytes);
// guard = the application has installed its own allocator: nothing it did not hand out may reach its free hook
static bool G_POLLUTE = false;
static bool G_PAGEGUARD = false;   // the application's allocator puts every block in front of an inaccessible page
static void load_with_oracle(int entry, int prov, const std::string &bytes, bool guard = false, bool pollute = false) {
  G_POLLUTE = pollute;
  jwt_set_alloc(NULL, NULL);
  if (G_PAGEGUARD) { G_PAGEGUARD = false; size_t live0 = pg_live().size(); pg_active() = true; guard_foreign_frees() = 0; jwt_set_alloc(pg_malloc, pg_free); fs().cls("with-page-guard-allocator");
    load_with_oracle_inner(entry, prov, bytes);
    jwt_set_alloc(NULL, NULL); pg_active() = false;
    if (guard_foreign_frees()) oracle_fail("pointer-not-from-installed-allocator-passed-to-its-free", "entry=" + std::to_string(entry) + " doc=" + bytes.substr(0, 400));
    if (pg_live().size() != live0) oracle_fail("block-from-installed-allocator-never-returned-to-it", "(page-guard allocator) entry=" + std::to_string(entry) + " doc=" + bytes.substr(0, 400));
    return; }
  size_t ledger0 = guard_live().size();
  if (guard) { guard_active() = true; guard_foreign_frees() = 0; jwt_set_alloc(guard_malloc, guard_free); fs().cls("with-application-allocator"); }
  load_with_oracle_inner(entry, prov, bytes);   // every jansson object of the oracle dies inside
  if (guard) { jwt_set_alloc(NULL, NULL); guard_active() = false; if (guard_foreign_frees()) oracle_fail("pointer-not-from-installed-allocator-passed-to-its-free", "entry=" + std::to_string(entry) + " doc=" + bytes.substr(0, 400)); if (guard_live().size() != ledger0) oracle_fail("block-from-installed-allocator-never-returned-to-it", ledger_dump() + " entry=" + std::to_string(entry) + " doc=" + bytes.substr(0, 400)); }
}
static void load_with_oracle_inner(int entry, int prov, const std::string &bytes) {
  FStats &st = fs();
  set_provider(prov, G_POLLUTE); set_now(1700000000); if (G_POLLUTE) st.cls("openssl-error-queue-not-empty");
  st.evaluations++;
  entry %= 8;
  std::string DOC = bytes;
  if (entry == 2 || entry == 3) DOC = bytes.substr(0, bytes.find('\0'));
  // entries 0/1, one time in seven: the caller hands over ZERO bytes of a buffer that holds a document (an empty answer in a receive buffer used
  // before; exact-size heap copy without terminator): the text handed over is empty, whatever lies behind the pointer
  std::unique_ptr<char[]> zbuf; bool zero_len = (entry == 0 || entry == 1) && !bytes.empty() && bytes.size() % 7 == 3;
  if (zero_len) { zbuf.reset(new char[bytes.size()]); memcpy(zbuf.get(), bytes.data(), bytes.size()); DOC.clear(); st.cls("zero-length-text-in-a-buffer-that-holds-a-document"); }
  jwk_set_t *set = nullptr; size_t before = 0;
  // the existing set holds one good key; every second time it also carries the error of an earlier load of text that was not JSON (never cleared)
  bool stale_error = false;
  if (entry == 1 || entry == 3 || entry == 6 || entry == 7) { set = jwks_create(GOOD_OCT.c_str()); if (DOC.size() & 2) { jwks_load(set, "{\"keys\": [ nope"); stale_error = jwks_error(set) != 0; st.cls("existing-set-with-stale-error"); }
    /* every second existing set was emptied first (drop the old keys, load the refreshed document): by free_all or item by item */
    if (DOC.size() & 4) { if (DOC.size() & 8) jwks_item_free_all(set); else while (jwks_item_count(set) > 0 && jwks_item_free(set, 0)) {} st.cls("existing-set-emptied-before-the-load"); }
    before = jwks_item_count(set); }
  bool via_create = DOC.size() & 1;
  jwk_set_t *r = nullptr;
  switch (entry) {
  case 0: r = zero_len ? jwks_create_strn(zbuf.get(), 0) : jwks_create_strn(DOC.data(), DOC.size()); break;
  case 1: r = zero_len ? jwks_load_strn(set, zbuf.get(), 0) : jwks_load_strn(set, DOC.data(), DOC.size()); break;
  case 2: r = jwks_create(DOC.c_str()); break;
  case 3: r = jwks_load(set, DOC.c_str()); break;
  case 4: { FILE *f = fmemopen((void *)(DOC.empty() ? "" : DOC.data()), DOC.size(), "r"); if (!f) { return; } r = via_create ? jwks_create_fromfp(f) : jwks_load_fromfp(nullptr, f); fclose(f); break; }
  case 5: { int fd = memfd_create("jwks", 0); if (fd < 0) return; if (!DOC.empty() && write(fd, DOC.data(), DOC.size()) != (ssize_t)DOC.size()) { close(fd); return; }
            std::string pth = "/proc/self/fd/" + std::to_string(fd); r = via_create ? jwks_create_fromfile(pth.c_str()) : jwks_load_fromfile(nullptr, pth.c_str()); close(fd); break; }
  case 6: { FILE *f = fmemopen((void *)(DOC.empty() ? "" : DOC.data()), DOC.size(), "r"); if (!f) { jwks_free(set); return; } r = jwks_load_fromfp(set, f); fclose(f); break; }
  case 7: { int fd = memfd_create("jwks", 0); if (fd < 0) { jwks_free(set); return; } if (!DOC.empty() && write(fd, DOC.data(), DOC.size()) != (ssize_t)DOC.size()) { close(fd); jwks_free(set); return; }
            std::string pth = "/proc/self/fd/" + std::to_string(fd); r = jwks_load_fromfile(set, pth.c_str()); close(fd); break; }
  }
  std::string d = "entry=" + std::to_string(entry) + " prov=" + std::to_string(prov) + " doc=" + DOC.substr(0, 400);
  if (!r) oracle_fail("load-returned-null", d);
  if (set && r != set) oracle_fail("load-returned-other-set", d);
  // reference parse
  J lenient = J::parse(DOC, JSON_DECODE_ANY | JSON_ALLOW_NUL);
  J libflags = J::parse(DOC, JSON_DECODE_ANY);
  size_t after = jwks_item_count(r);
  if (!lenient) {
    st.cls("not-json");
    if (!jwks_error(r)) oracle_fail("not-json-but-no-set-error", d);
    if (after != before) oracle_fail("not-json-but-items-added", d);
    if (!jwks_error_msg(r) || !jwks_error_msg(r)[0]) oracle_fail("set-error-without-message", d);
  } else if (libflags) {
    st.cls("json");
    if (jwks_error(r) && !stale_error) oracle_fail("json-but-set-error", d);
    json_t *keys = json_object_get(libflags.p, "keys");
    size_t want = (size_t)-1;
    if (!keys) want = 1; else if (json_is_array(keys)) want = json_array_size(keys);
    if (want != (size_t)-1 && after - before != want) oracle_fail("item-count-differs-from-document", d + " want=" + std::to_string(want) + " got=" + std::to_string(after - before));
    bool any_known = false;
    for (size_t i = before; i < after; i++) {
      const jwk_item_t *it = jwks_item_get(r, i);
      if (!it) oracle_fail("item-get-null-below-count", d);
      json_t *el = !keys ? libflags.p : json_is_array(keys) ? json_array_get(keys, i - before) : nullptr;
      // every reader of the item returns (errored items included)
      { const char *c = jwks_item_curve(it); volatile size_t sink = c ? strlen(c) : 0; (void)jwks_item_use(it); (void)jwks_item_key_ops(it); (void)jwks_item_alg(it); (void)jwks_item_key_bits(it); (void)jwks_item_is_private(it);
        const char *k = jwks_item_kid(it); sink = k ? strlen(k) : 0; const char *pm = jwks_item_pem(it); sink = pm ? strlen(pm) : 0; (void)sink;
        if (k) (void)jwks_find_bykid(r, k); }   // (what it returns is C16's business)
      if (jwks_item_error(it)) {
        st.cls("item-error");
        if (!jwks_item_error_msg(it) || !jwks_item_error_msg(it)[0]) oracle_fail("item-error-without-message", d);
      } else {
        st.cls("item-ok");
        jwk_key_type_t kty = jwks_item_kty(it);
        if (kty != JWK_KEY_TYPE_EC && kty != JWK_KEY_TYPE_RSA && kty != JWK_KEY_TYPE_OKP && kty != JWK_KEY_TYPE_OCT) oracle_fail("ok-item-unknown-kty", d);
        const unsigned char *ob = nullptr; size_t ol = 0;
        if (kty == JWK_KEY_TYPE_OCT) {
          if (jwks_item_key_oct(it, &ob, &ol) || !ob || !ol) oracle_fail("ok-oct-item-without-key-bytes", d);
          if (el && json_is_string(json_object_get(el, "k"))) { std::string want_k; b64_dec_lenient(json_string_value(json_object_get(el, "k")), want_k); if (want_k != std::string((const char *)ob, ol)) oracle_fail("oct-bytes-differ-from-k-of-same-position", d); }
        } else {
          const char *pem = jwks_item_pem(it);
          if (pem) { EVP_PKEY *pk = pem_to_pkey(pem, jwks_item_is_private(it)); if (!pk) oracle_fail("ok-item-pem-unparsable", d); EVP_PKEY_free(pk); }
        }
        use_item(it);
      }
      // order: metadata of item i comes from element i
      if (el && json_is_object(el)) {
        json_t *kty = json_object_get(el, "kty");
        if (kty && json_is_string(kty)) { std::string k = json_string_value(kty); if (k == "EC" || k == "RSA" || k == "OKP" || k == "oct") any_known = true; }
        const char *ikid = jwks_item_kid(it);
        if (ikid) { json_t *kid = json_object_get(el, "kid"); if (!kid || !json_is_string(kid) || strcmp(json_string_value(kid), ikid)) oracle_fail("item-kid-not-from-element-at-same-position", d); }
      }
    }
    if (any_known) { st.cls("reached-per-type-parser"); st.nt(mix(fnv(DOC), entry * 2 + prov)); }
  } else st.cls("json-only-with-lenient-flags");
  jwks_free(r);
  sample("{\"entry\":" + std::to_string(entry) + ",\"prov\":" + std::to_string(prov) + ",\"doc\":" + jstr(DOC.substr(0, 300)) + "}");
}
