// C16 - a jwk_set is an ordered list under every operation sequence: exhaustive short sequences +
// rapidcheck long ones vs a vector model; ASan on every step, LSan after each sequence.
#include <rapidcheck.h>
#include "vlib.h"
#include "vkeys.h"
#include <sys/wait.h>
using namespace v;
template <typename T> static rc::Gen<T> UNI(T lo, T hi) { return rc::gen::resize(100, rc::gen::inRange<T>(lo, hi)); }

enum { L_GOOD, L_DUPKID, L_NOKID, L_BAD, L_MIXED, L_EC, L_NONJSON, L_EMPTYKEYS, O_GET, O_FIND, O_FREE, O_FREE_BAD, O_FREE_ALL, O_ERR_CLEAR, O_FREE_MID, O_FIND_DUP, L_BADKEY, O_N };   // L_BADKEY (appended): keys that fail half-way through their construction
static const char *ON[] = {"load-good", "load-good-dupkid", "load-good-nokid", "load-bad", "load-mixed(good,bad,good)", "load-ec", "load-nonjson", "load-empty-keys", "get", "find", "free", "free-bad", "free-all", "error-clear", "free-mid", "find-dup", "load-half-built-bad-key"};
struct Op { int k; int a; };

struct MItem { std::string tag, kid; bool bad; };
struct Model { std::vector<MItem> items; int set_error = 0; };

static std::string EC_JWK_X, EC_JWK_Y, RSA_JWK_N;
static std::vector<std::string> ASYM_JWKS;   // good asymmetric JWKs with the placeholder kid "KID"
static int g_counter = 0;

static std::string oct_jwk(const std::string &tag, const std::string &kid, bool bad) {
  std::string k = "tag:" + tag + std::string(32, 'k');
  std::string s = "{\"kty\":\"oct\"";
  if (!bad) s += ",\"k\":\"" + b64u_enc(k) + "\"";
  if (!kid.empty()) s += ",\"kid\":\"" + kid + "\"";
  return s + "}";
}
static std::string item_tag(const jwk_item_t *it) {
  const unsigned char *b; size_t l;
  if (jwks_item_kty(it) == JWK_KEY_TYPE_OCT && !jwks_item_error(it) && !jwks_item_key_oct(it, &b, &l)) { std::string s((const char *)b, l); if (s.rfind("tag:", 0) == 0) return s.substr(4, s.size() - 4 - 32); }
  const char *kid = jwks_item_kid(it); return kid ? std::string("kid:") + kid : "?";
}

static std::string TRACE;
static jwk_set_t *do_load(jwk_set_t *set, const std::string &doc, int how) {
  switch (how % 3) {
  case 0: return jwks_load(set, doc.c_str());
  case 1: return jwks_load_strn(set, doc.data(), doc.size());
  default: { FILE *f = fmemopen((void *)doc.data(), doc.size(), "r"); jwk_set_t *r = jwks_load_fromfp(set, f); fclose(f); return r; }
  }
}

// returns violated clause or ""
static bool G_RECYCLE = false, G_LEDGER = false;   // G_LEDGER: the application's allocator keeps a ledger - everything it handed out must come back through its free hook
// sparse = the state is inspected only at the end (and by the operations themselves): a full scan after every step walks the
// list from index 0 and so puts any lookup state the set keeps (cursor, last hit) back in order before the next operation uses it
static std::string run_seq(const std::vector<Op> &ops, bool sparse = false) {
  TRACE.clear(); g_counter = 0;
  size_t ledger0 = G_LEDGER ? guard_live().size() : 0; if (G_LEDGER) guard_foreign_frees() = 0;
  Model m; jwk_set_t *set = jwks_create(NULL);
  if (!set) return "create-null";
  std::string bad;
  auto check_state = [&]() -> std::string {
    size_t c = jwks_item_count(set);
    if (c != m.items.size()) return "count-differs";
    if (jwks_item_get(set, c) != nullptr) return "get-at-count-not-null";   // asked before anything else walks the list
    for (size_t i = c; i-- > 0;) {   // from the back
      const jwk_item_t *it = jwks_item_get(set, i); if (!it) return "get-null-below-count";
      if (item_tag(it) != m.items[i].tag) return "order-or-identity-differs";
      if ((jwks_item_error(it) != 0) != m.items[i].bad) return "item-error-flag-differs";
    }
    if (jwks_item_get(set, c) != nullptr) return "get-at-count-not-null";
    if (jwks_item_get(set, c + 7) != nullptr) return "get-beyond-count-not-null";
    // out-of-range indices whose low 8 / 16 / 31 / 32 bits are small (an index narrowed on its way selects a real item)
    static const size_t FAR[] = {256, 65536, (size_t)1 << 31, ((size_t)1 << 31) + 1, (size_t)1 << 32, ((size_t)1 << 32) + 1, (size_t)1 << 63, ((size_t)1 << 63) + 1, (size_t)-1, (size_t)-2};
    for (size_t f : FAR) if (f >= c) { if (jwks_item_get(set, f) != nullptr) return "get-far-beyond-count-not-null"; if (jwks_item_free(set, f) != 0) return "free-far-beyond-count-not-0"; }
    if (jwks_item_count(set) != c) return "count-changed-by-out-of-range-free";
    int nb = 0; for (auto &x : m.items) nb += x.bad;
    if (jwks_error_any(set) != m.set_error + nb) return "error-any-differs";
    if ((jwks_error(set) != 0) != (m.set_error != 0)) return "set-error-flag-differs";
    return "";
  };
  for (const Op &o : ops) {
    TRACE += ON[o.k % O_N]; TRACE += "(" + std::to_string(o.a) + "); ";
    int n = ++g_counter; std::string tag = "t" + std::to_string(n);
    size_t cnt = m.items.size();
    switch (o.k % O_N) {
    case L_GOOD: { if (do_load(set, oct_jwk(tag, tag, false), o.a) != set) bad = "load-returned-other-set"; m.items.push_back({tag, tag, false}); break; }
    case L_DUPKID: { if (do_load(set, oct_jwk(tag, "dup", false), o.a) != set) bad = "load-returned-other-set"; m.items.push_back({tag, "dup", false}); break; }
    case L_NOKID: { if (do_load(set, oct_jwk(tag, "", false), o.a) != set) bad = "load-returned-other-set"; m.items.push_back({tag, "", false}); break; }
    case L_BAD: { if (do_load(set, oct_jwk(tag, "bad" + tag, true), o.a) != set) bad = "load-returned-other-set"; m.items.push_back({"kid:bad" + tag, "bad" + tag, true}); break; }
    case L_MIXED: { std::string d = "{\"keys\":[" + oct_jwk(tag + "a", tag + "a", false) + "," + oct_jwk(tag + "b", "dup", true) + "," + oct_jwk(tag + "c", tag + "c", false) + "]}";
      if (do_load(set, d, o.a) != set) bad = "load-returned-other-set"; m.items.push_back({tag + "a", tag + "a", false}); m.items.push_back({"kid:dup", "dup", true}); m.items.push_back({tag + "c", tag + "c", false}); break; }
    case L_EC: { std::string d = "{\"kty\":\"EC\",\"crv\":\"P-256\",\"x\":\"" + EC_JWK_X + "\",\"y\":\"" + EC_JWK_Y + "\",\"kid\":\"ec" + tag + "\"}";
      // every third time another good asymmetric key instead: EC / OKP / RSA private keys, OKP public (each builds and must release its own temporaries)
      if (o.a % 3 == 2 && !ASYM_JWKS.empty()) { d = ASYM_JWKS[(o.a / 3) % ASYM_JWKS.size()]; size_t p2 = d.find("\"kid\":\"KID\""); if (p2 != std::string::npos) d.replace(p2, 11, "\"kid\":\"ec" + tag + "\""); }
      if (do_load(set, d, o.a) != set) bad = "load-returned-other-set"; m.items.push_back({"kid:ec" + tag, "ec" + tag, false}); break; }
    case L_BADKEY: {   // one member decodes, the next does not: whatever was built for the first must be released with the item
      static const char *shapes[] = {"{\"kty\":\"EC\",\"crv\":\"P-256\",\"x\":\"%X\",\"y\":\"A\",\"kid\":\"%K\"}", "{\"kty\":\"EC\",\"crv\":\"P-256\",\"x\":\"\",\"y\":\"%Y\",\"kid\":\"%K\"}", "{\"kty\":\"RSA\",\"n\":\"%N\",\"e\":\"A\",\"kid\":\"%K\"}",
                                     "{\"kty\":\"RSA\",\"n\":\"%N\",\"e\":\"AQAB\",\"d\":\"AAAA\",\"p\":\"!\",\"kid\":\"%K\"}", "{\"kty\":\"OKP\",\"crv\":\"Ed25519\",\"x\":\"A\",\"kid\":\"%K\"}", "{\"kty\":\"EC\",\"crv\":\"P-256\",\"x\":\"%X\",\"y\":\"%Y\",\"d\":\"A\",\"kid\":\"%K\"}"};
      std::string d = shapes[(o.a / 3) % 6]; auto rep = [&](const char *k, const std::string &v) { size_t p = d.find(k); if (p != std::string::npos) d.replace(p, 2, v); };
      rep("%X", EC_JWK_X); rep("%Y", EC_JWK_Y); rep("%N", RSA_JWK_N); rep("%K", "bk" + tag);
      // one time in five: a good asymmetric key (its key material loads) that is flagged all the same - "alg" is not a string
      if (o.a % 5 == 4 && !ASYM_JWKS.empty()) { d = ASYM_JWKS[(o.a / 5) % ASYM_JWKS.size()]; size_t p2 = d.find("\"kid\":\"KID\""); if (p2 != std::string::npos) d.replace(p2, 11, "\"kid\":\"bk" + tag + "\"");
        size_t b0 = d.find('{'); if (b0 != std::string::npos) d.insert(b0 + 1, (o.a & 8) ? "\"alg\":256," : "\"alg\":[\"ES256\"],"); }
      bool flagged_by_alg = o.a % 5 == 4 && !ASYM_JWKS.empty();   // (the parser stops at the alg member: such an item has no kid)
      if (do_load(set, d, o.a) != set) bad = "load-returned-other-set"; if (flagged_by_alg) m.items.push_back({"?", "", true}); else m.items.push_back({"kid:bk" + tag, "bk" + tag, true}); break; }
    case L_NONJSON: { if (do_load(set, "{\"keys\": [ nope", o.a) != set) bad = "load-returned-other-set"; m.set_error = 1; break; }
    case L_EMPTYKEYS: { if (do_load(set, "{\"keys\":[]}", o.a) != set) bad = "load-returned-other-set"; break; }
    case O_GET: { size_t idx = o.a % 5 == 0 ? 0 : o.a % 5 == 1 ? cnt / 2 : o.a % 5 == 2 ? (cnt ? cnt - 1 : 0) : o.a % 5 == 3 ? cnt : cnt + 7;
      const jwk_item_t *it = jwks_item_get(set, idx); if ((it != nullptr) != (idx < cnt)) bad = "get-presence"; else if (it && item_tag(it) != m.items[idx].tag) bad = "get-identity"; break; }
    case O_FIND: case O_FIND_DUP: {
      std::string q;
      if (o.k % O_N == O_FIND_DUP) q = "dup";
      else { std::vector<std::string> kids; for (auto &x : m.items) if (!x.kid.empty()) kids.push_back(x.kid);
        switch (o.a % 6) { case 4: q = (kids.empty() ? std::string("t1") : kids[(o.a / 6) % kids.size()]) + std::string(256, 'x'); break; case 5: q = (kids.empty() ? std::string("t1") : kids[(o.a / 6) % kids.size()]) + std::string(65536, 'x'); break;
        case 0: q = kids.empty() ? "t1" : kids[(o.a / 4) % kids.size()]; break; case 1: q = kids.empty() ? "t" : kids[(o.a / 4) % kids.size()].substr(0, kids[(o.a / 4) % kids.size()].size() - 1); break; case 2: q = "absent"; break; case 3: q = kids.empty() ? "x" : kids[(o.a / 4) % kids.size()] + "x"; break; } }
      const MItem *want = nullptr; size_t wi = 0; for (size_t i = 0; i < m.items.size(); i++) if (!m.items[i].kid.empty() && m.items[i].kid == q) { want = &m.items[i]; wi = i; break; }
      jwk_item_t *it = jwks_find_bykid(set, q.c_str());
      if ((it != nullptr) != (want != nullptr)) bad = "find-presence"; else if (it && it != jwks_item_get(set, wi)) bad = "find-not-first-match"; break; }
    case O_FREE: case O_FREE_MID: { size_t idx = (o.k % O_N == O_FREE_MID) ? cnt / 2 : o.a % 4 == 0 ? 0 : o.a % 4 == 1 ? (cnt ? cnt - 1 : 0) : o.a % 4 == 2 ? cnt : cnt + 7;
      int r = jwks_item_free(set, idx); int want = idx < cnt ? 1 : 0; if (r != want) bad = "free-return"; if (want) m.items.erase(m.items.begin() + idx); break; }
    case O_FREE_BAD: { int nb = 0; for (auto &x : m.items) nb += x.bad; int r = jwks_item_free_bad(set); if (r != nb) bad = "free-bad-return";
      std::vector<MItem> keep; for (auto &x : m.items) if (!x.bad) keep.push_back(x); m.items = keep; break; }
    case O_FREE_ALL: { int r = jwks_item_free_all(set); if (r != (int)cnt) bad = "free-all-return"; m.items.clear(); break; }
    case O_ERR_CLEAR: { jwks_error_clear(set); m.set_error = 0; break; }
    }
    if (bad.empty() && (!sparse || &o == &ops.back())) bad = check_state();
    if (!bad.empty()) { bad += std::string("-after-") + ON[o.k % O_N] + (sparse ? "(state-inspected-at-the-end-only)" : ""); break; }
  }
  jwks_free(set);
  if (bad.empty() && G_LEDGER) { if (guard_foreign_frees()) bad = "pointer-not-from-installed-allocator-passed-to-its-free"; else if (guard_live().size() != ledger0) { bad = "block-from-installed-allocator-never-returned-to-it"; TRACE += " [" + std::to_string(guard_live().size() - ledger0) + " block(s) outstanding]"; } }
  return bad;
}

static const std::vector<Op> *CUR = nullptr;
static std::string case_json(const std::vector<Op> &ops) {
  std::string s = std::string("{\"provider\":\"") + jwt_get_crypto_ops() + "\",\"recycling_allocator\":" + (G_RECYCLE ? "true" : "false") + ",\"ledger_allocator\":" + (G_LEDGER ? "true" : "false") + ",\"ops\":["; for (size_t i = 0; i < ops.size(); i++) s += (i ? "," : "") + std::string("[") + std::to_string(ops[i].k) + "," + std::to_string(ops[i].a) + "]";
  s += "],\"readable\":["; for (size_t i = 0; i < ops.size(); i++) s += (i ? "," : "") + jstr(std::string(ON[ops[i].k % O_N]) + "(" + std::to_string(ops[i].a) + ")");
  return s + "],\"trace\":" + jstr(TRACE) + "}";
}
static bool nontrivial(const std::vector<Op> &ops) {
  bool removed = false, dup = false; int loads = 0;
  for (auto &o : ops) { int k = o.k % O_N; if (k == L_DUPKID || k == L_MIXED) { if (dup || k == L_MIXED) {} dup = true; } if (k < L_NONJSON) { loads++; if (removed) return true; }
    if ((k == O_GET || k == O_FIND) && removed) return true; if ((k == O_FREE || k == O_FREE_MID || k == O_FREE_BAD || k == O_FREE_ALL) && loads) removed = true; if (k == O_FIND_DUP && dup) return true; }
  return false;
}
static bool LEAKCHK = false;
// LSan's stop-the-world check costs ~75 ms: run it once per batch of sequences and, when it fires, re-run the
// batch one by one to find the sequence that leaks (it must leak twice in a row to be blamed).
static std::vector<std::vector<Op>> BATCH;
static const size_t BATCH_N = 256;
static bool g_single = false;  // replay mode: check after the one sequence
static std::string g_self, g_tmp;
// the leak check reports every block leaked so far, so the culprit is searched in fresh processes: each sequence of the
// batch is replayed alone (./self --replay), the first one that leaks there is blamed
static std::string leak_culprit() {
  for (auto &ops : BATCH) {
    std::string f = g_tmp + ".culprit.json"; FILE *o = fopen(f.c_str(), "w"); if (!o) break; std::string js = case_json(ops); fputs(js.c_str(), o); fclose(o);
    std::string cmd = g_self + " --replay " + f + " --out " + f + ".out >/dev/null 2>&1"; int rc = system(cmd.c_str());
    unlink(f.c_str()); unlink((f + ".out").c_str()); unlink((f + ".out.fp").c_str());
    if (WIFEXITED(rc) && WEXITSTATUS(rc) == 3) { static std::vector<Op> keep; keep = ops; CUR = &keep; return "leak-after-sequence"; }
  }
  return "";
}
static bool one(const std::vector<Op> &ops, bool count, std::string *why = nullptr) {
  Stats &st = stats(); CUR = &ops;
  std::string r = run_seq(ops);
  if (r.empty()) r = run_seq(ops, true);
  if (r.empty() && LEAKCHK) {
    if (g_single) { if (__lsan_do_recoverable_leak_check()) r = "leak-after-sequence"; }
    else { BATCH.push_back(ops); if (BATCH.size() >= BATCH_N) { if (__lsan_do_recoverable_leak_check()) r = leak_culprit(); BATCH.clear(); if (!r.empty() && CUR != &ops) { std::string sig = "C16:" + r; if (why) *why = r; if (!st.is_known(sig)) { st.violation(sig, "LeakSanitizer reports a leak after this operation sequence", case_json(*CUR)); } return true; } } }
  }
  if (count) { st.evaluations++; if (nontrivial(ops)) { uint64_t fp = 7; for (auto &o : ops) fp = mix(fp, mix(o.k % O_N, o.a)); st.nontrivial(fp); } if (st.want_sample()) st.sample(case_json(ops)); }
  if (why) *why = r;
  if (!r.empty()) { std::string sig = "C16:" + r; if (st.is_known(sig)) { st.known_hits[sig]++; return true; } return false; }
  return true;
}

static void flush_batch() {
  Stats &st = stats();
  if (LEAKCHK && !BATCH.empty() && __lsan_do_recoverable_leak_check()) { std::string r = leak_culprit(); if (!r.empty() && !st.is_known("C16:" + r)) st.violation("C16:" + r, "LeakSanitizer reports a leak after this operation sequence", case_json(*CUR)); }
  BATCH.clear();
}

int main(int argc, char **argv) {
  Args a = parse_args(argc, argv); g_self = argv[0]; g_tmp = a.out.empty() ? std::string("/tmp/c16-") + std::to_string(getpid()) : a.out;
  { KeySpec ec = load_fixture("ec_p256"); EC_JWK_X = b64u_enc(pkey_bn(ec.pkey, OSSL_PKEY_PARAM_EC_PUB_X, 32)); EC_JWK_Y = b64u_enc(pkey_bn(ec.pkey, OSSL_PKEY_PARAM_EC_PUB_Y, 32)); EVP_PKEY_free(ec.pkey); for (auto nm : {std::make_pair("ec_p256", true), std::make_pair("ed25519", true), std::make_pair("ed448", true), std::make_pair("ed25519", false), std::make_pair("rsa_2048", true), std::make_pair("ec_p521", true)}) { KeySpec k = load_fixture(nm.first); JwkOpts o; o.priv = nm.second; o.kid = "KID"; ASYM_JWKS.push_back(jwk_json(k, o)); EVP_PKEY_free(k.pkey); }
    KeySpec rsa = load_fixture("rsa_2048"); RSA_JWK_N = b64u_enc(pkey_bn(rsa.pkey, OSSL_PKEY_PARAM_RSA_N)); EVP_PKEY_free(rsa.pkey); }
  cur_case() = [] { return CUR ? case_json(*CUR) : std::string("{}"); };
  Stats &st = stats();
  // keys are parsed by the OpenSSL code under either provider, but they are released through the ACTIVE provider: odd workers run under GnuTLS
  { int prov = a.kv.count("prov") ? atoi(a.kv["prov"].c_str()) : (a.worker & 1); set_provider(prov); st.extra["provider_of_worker0"] = jstr(prov_name(a.worker & 1)); st.cls(std::string("worker-under-") + prov_name(prov)); }
  const char *ao = getenv("ASAN_OPTIONS"); LEAKCHK = ao && strstr(ao, "detect_leaks=1");
  // every fourth worker runs with an allocator that hands a freed block to the next request of the same size: each sequence's set (and
  // its items) then live where those of the sequence before lived, so anything remembered by address across sets is read back wrong.
  // (No leak accounting on these workers: recycled blocks stay reachable.)
  if ((a.worker & 3) == 2 && a.replay.empty()) { G_LEDGER = true; jwt_set_alloc(guard_malloc, guard_free); LEAKCHK = false; st.cls("worker-with-ledger-allocator"); }
  if ((a.worker & 3) == 3 && a.replay.empty()) { G_RECYCLE = true; jwt_set_alloc(recycle_malloc, recycle_free); LEAKCHK = false; st.cls("worker-with-recycling-allocator"); }
  // warm up one-time allocations of the crypto library so they are not attributed to a sequence
  { std::vector<Op> w = {{L_EC, 0}, {L_GOOD, 1}, {L_NONJSON, 2}}; run_seq(w); if (LEAKCHK) __lsan_do_recoverable_leak_check(); }
  if (!a.replay.empty()) {
    J j = J::parse(read_file(a.replay)); if (!j) return 2;
    { const char *pn = json_string_value(json_object_get(j.p, "provider")); if (pn) jwt_set_crypto_ops(pn); }
    if (json_is_true(json_object_get(j.p, "ledger_allocator"))) { G_LEDGER = true; jwt_set_alloc(guard_malloc, guard_free); LEAKCHK = false; }
    if (json_is_true(json_object_get(j.p, "recycling_allocator"))) { G_RECYCLE = true; jwt_set_alloc(recycle_malloc, recycle_free); LEAKCHK = false; std::vector<Op> w = {{L_MIXED, 0}, {L_GOOD, 1}, {O_FIND, 0}, {O_GET, 2}}; run_seq(w); }   // a set lived here before
    std::vector<Op> ops; size_t i; json_t *e; json_array_foreach(json_object_get(j.p, "ops"), i, e) ops.push_back({(int)json_integer_value(json_array_get(e, 0)), (int)json_integer_value(json_array_get(e, 1))});
    g_single = true; std::string why; bool ok = one(ops, false, &why); if (!ok) fprintf(stderr, "replay: %s | %s\n", why.c_str(), TRACE.c_str());
    return ok ? 0 : 3;
  }
  int L = a.thorough() ? 5 : 4;
  {
    std::vector<Op> seq; uint64_t idx = 0;
    std::function<bool(int)> rec = [&](int depth) -> bool {
      if (depth > 0 && (int)(idx++ % a.nworkers) == a.worker) {
        std::string why;
        if (!one(seq, true, &why)) { st.violation("C16:" + why, "keyring disagrees with the list model: " + TRACE.substr(0, 600), case_json(seq)); return false; }
      }
      if (depth == L) return true;
      for (int k = 0; k < O_N; k++) { seq.push_back({k, depth + k}); bool ok = rec(depth + 1); seq.pop_back(); if (!ok) return false; }
      return true;
    };
    rec(0); flush_batch();
    st.extra["exhaustive_alphabet"] = std::to_string((int)O_N); st.extra["exhaustive_max_length"] = std::to_string(L); st.extra["leak_check_per_sequence"] = LEAKCHK ? "true" : "false";
  }
  if (!st.violations.empty()) return finish();
  uint64_t n = a.thorough() ? 20000 : 1500;
  std::string params = "seed=" + std::to_string(a.seed * 1000 + a.worker) + " max_success=" + std::to_string(n) + " max_size=100";
  setenv("RC_PARAMS", params.c_str(), 1);
  std::vector<Op> lastfail; std::string lastwhy, lasttrace;
  auto genOp = rc::gen::exec([]() { Op o; o.k = *UNI(0, (int)O_N); o.a = *UNI(0, 1 << 12); return o; });
  bool ok = rc::check("C16: keyring is an ordered list", [&]() {
    if (v::shrink_exhausted()) return;
    int len = *UNI(1, 61);
    std::vector<Op> ops = *rc::gen::container<std::vector<Op>>(len, genOp);
    std::string why;
    if (!one(ops, true, &why)) { lastfail = ops; lastwhy = why; lasttrace = TRACE; v::fail_seen()++; RC_FAIL(why); }
  });
  flush_batch();
  if (!ok && !lastwhy.empty()) { TRACE = lasttrace; st.violation("C16:" + lastwhy, "keyring disagrees with the list model: " + lasttrace.substr(0, 600), case_json(lastfail)); }
  return finish();
}
