#!/bin/sh
# re-run every quick check on the unchanged tree so that the committed evidence describes such a run
cd /verif || exit 2
git -C /repo diff --quiet || { echo "/repo has uncommitted edits"; exit 2; }
rc=0
for c in C01 C02 C03 C04 C05 C06 C07 C08 C09 C10 C11 C12 C13 C14 C15 C16 C17 C18 C19 C20; do
  VERIF_SEED=1 ./check.py $c --tier quick 2>&1 | grep -v "^\[check\]\|KNOWN-FINDING" | cut -c1-160 | tail -2 || rc=1
done
python3-vt - <<'PY'
import json, jsonschema, glob
sch = json.load(open('/root/.vp/EVIDENCE.schema.json'))
bad = 0
for f in sorted(glob.glob('/verif/evidence/*.json')):
    d = json.load(open(f)); jsonschema.validate(d, sch)
    if d.get('violations') or d['tier'] != 'quick': print('NOT CLEAN', f, d['tier'], d.get('violations')); bad += 1
print('evidence files valid:', len(glob.glob('/verif/evidence/*.json')), 'not clean:', bad)
PY
