#!/bin/bash
# prepares the scratch worktrees + task files for one round of seeded changes: drv/seed_round.sh <round-number> <suffixes of the earlier rounds...>
# (each sub-agent is then told only: "Read /tmp/w<N>-Cxx/TASK.md and carry out the task"). Nothing of /verif but the property text and
# one-line descriptions of the earlier ideas goes into the worktree.
N=$1; shift; SUF="$*"
cd /repo || exit 2
for i in $(seq -w 1 20); do git worktree add -q --detach /tmp/w$N-C$i HEAD 2>&1 | tail -1; done
python3 - "$N" $SUF <<'EOF'
import json,sys
N=sys.argv[1]; suf=[''] + ['-'+x for x in sys.argv[2:]]
for l in open('/verif/properties.jsonl'):
    p=json.loads(l); pid=p['id']
    prev=[]
    for s in suf:
        try: prev.append(json.load(open(f'/verif/seeded/{pid}{s}/meta.json'))['change'])
        except Exception: pass
    txt="Property %s: %s\n\nStatement: %s\n\nQuantified over: %s\n\n%d earlier attempts already used these ideas, so yours must be DIFFERENT from all of them (different code site and different mechanism):\n"%(pid,p['title'],p['statement'],p['quantifier']['text'],len(prev))
    for i,c in enumerate(prev): txt+=" %d. %s\n"%(i+1,c)
    open('/tmp/w%s-%s/PROPERTY.txt'%(N,pid),'w').write(txt)
EOF
for i in $(seq -w 1 20); do D=/tmp/w$N-C$i; sed "s#@D@#$D#g; s#@N@#$N#g" /verif/seeded/TASK.template.md > $D/TASK.md; done
echo ready
