#!/usr/bin/env python3
"""Driver for the libjwt property checks (see DESIGN.md section 2).

  ./check.py C11 --tier quick            run one property
  ./check.py C11 --replay FILE           re-run a saved failing case
  ./check.py --setup                     pre-build library flavors + harnesses
  ./check.py --list

Exit 0: property held on everything explored (KNOWN-FINDING lines possible).
Exit 1: "VIOLATION property=<id> replay=<path>" printed.
Exit 2: the check itself is broken (build failure, generator health).
"""
import argparse, hashlib, json, os, shutil, subprocess, sys, time, fcntl, glob, re, signal, struct, tempfile

VERIF = os.path.dirname(os.path.abspath(__file__))
REPO = os.environ.get("VERIF_REPO", "/repo")
CACHE = os.environ.get("VERIF_CACHE", os.path.join(VERIF, ".cache"))
OUT = os.path.join(VERIF, "out")
NCPU = int(os.environ.get("VERIF_JOBS", str(os.cpu_count() or 4)))

sys.path.insert(0, os.path.join(VERIF, "drv"))

COMMON_C = ("-g -O1 -fno-inline -fno-omit-frame-pointer -Wno-error -include stddef.h")
FLAVORS = {
    "asan": COMMON_C + " -fsanitize=address,undefined -fno-sanitize-recover=undefined",
    "fuzz": COMMON_C + " -fsanitize=address,undefined -fno-sanitize-recover=undefined -fsanitize=fuzzer-no-link",
    "tsan": "-g -O1 -fno-omit-frame-pointer -Wno-error -include stddef.h -fsanitize=thread",
}
HARNESS_SAN = {
    "asan": "-fsanitize=address,undefined -fno-sanitize-recover=undefined",
    "fuzz": "-fsanitize=fuzzer,address,undefined -fno-sanitize-recover=undefined",
    "tsan": "-fsanitize=thread",
}
LINK_LIBS = "-Wl,--wrap=time -ljansson -lgnutls -lssl -lcrypto -lpthread"


def log(*a):
    print("[check]", *a, file=sys.stderr, flush=True)


def sh(cmd, **kw):
    return subprocess.run(cmd, shell=isinstance(cmd, str), **kw)


def file_hash(paths):
    h = hashlib.sha256()
    for p in sorted(paths):
        h.update(p.encode())
        try:
            with open(p, "rb") as f:
                h.update(f.read())
        except OSError:
            h.update(b"<missing>")
    return h.hexdigest()


def tree_files(root, subs, exts=None):
    out = []
    for s in subs:
        p = os.path.join(root, s)
        if os.path.isfile(p):
            out.append(p)
            continue
        for d, dn, fn in os.walk(p):
            dn.sort()
            for f in fn:
                if exts is None or os.path.splitext(f)[1] in exts:
                    out.append(os.path.join(d, f))
    return out


def repo_tree_hash():
    files = tree_files(REPO, ["CMakeLists.txt", "cmake", "include", "libjwt", "tools"])
    h = hashlib.sha256()
    for p in sorted(files):
        h.update(os.path.relpath(p, REPO).encode())
        with open(p, "rb") as f:
            h.update(f.read())
    return h.hexdigest()[:16]


class Lock:
    def __init__(self, path):
        os.makedirs(os.path.dirname(path), exist_ok=True)
        self.f = open(path, "w")

    def __enter__(self):
        fcntl.flock(self.f, fcntl.LOCK_EX)
        return self

    def __exit__(self, *a):
        fcntl.flock(self.f, fcntl.LOCK_UN)
        self.f.close()


def prune(dirpat, keep):
    def mt(p):
        try:
            return os.path.getmtime(p)
        except OSError:   # another check.py run pruned it meanwhile
            return 0
    ds = sorted(glob.glob(dirpat), key=mt, reverse=True)
    for d in ds[keep:]:
        try:
            shutil.rmtree(d, ignore_errors=True) if os.path.isdir(d) else os.unlink(d)
        except OSError:
            pass


def build_lib(flavor, tools=False):
    """Build libjwt.a (and optionally the tools) from REPO's working tree."""
    th = repo_tree_hash()
    bdir = os.path.join(CACHE, "lib", f"{flavor}-{th}")   # (tree hash only: the flags are part of the flavor name)
    stamp = os.path.join(bdir, ".ok_tools" if tools else ".ok")
    with Lock(os.path.join(CACHE, "lock", f"lib-{flavor}-{th}")):
        if os.path.exists(stamp):
            os.utime(bdir)
            return bdir
        t0 = time.time()
        os.makedirs(bdir, exist_ok=True)
        if not os.path.exists(os.path.join(bdir, "build.ninja")):
            r = sh(["cmake", "-G", "Ninja", "-S", REPO, "-B", bdir, "-DCMAKE_C_COMPILER=" + os.path.join(VERIF, "drv", "vcc"),
                    "-DCMAKE_BUILD_TYPE=None", f"-DCMAKE_C_FLAGS={FLAVORS[flavor]}",
                    "-DCMAKE_EXE_LINKER_FLAGS=" + HARNESS_SAN[flavor].replace("fuzzer,", ""),
                    "-DWITH_TESTS=OFF", "-DWITH_GNUTLS=ON"], stdout=subprocess.PIPE, stderr=subprocess.STDOUT, text=True)
            if r.returncode:
                log(r.stdout[-3000:])
                raise SystemExit(2)
        targets = ["jwt_static"] + (["jwt-verify", "jwt-generate", "key2jwk", "jwk2key"] if tools else [])
        r = sh(["cmake", "--build", bdir, "--target"] + targets, stdout=subprocess.PIPE, stderr=subprocess.STDOUT, text=True)
        if r.returncode:
            log(r.stdout[-4000:])
            log("BUILD FAILED for /repo working tree")
            raise SystemExit(2)
        open(stamp, "w").write("ok")
        if tools:
            open(os.path.join(bdir, ".ok"), "w").write("ok")
        log(f"built libjwt flavor={flavor} tree={th} in {time.time()-t0:.1f}s")
    prune(os.path.join(CACHE, "lib", f"{flavor}-*"), 8)
    return bdir


def harness_obj(name, src, flavor, lang_flags, bdir):
    deps = [src] + glob.glob(os.path.join(VERIF, "vlib", "*.h")) + glob.glob(os.path.join(os.path.dirname(src), "*.h")) + \
        tree_files(REPO, ["include"]) + [os.path.join(bdir, "jwt_export.h")]
    hh = hashlib.sha256()
    for pth in deps:  # content only: the library build dir changes with every tree, its generated header rarely does
        hh.update(os.path.basename(pth).encode())
        try:
            hh.update(open(pth, "rb").read())
        except OSError:
            hh.update(b"<missing>")
    key = hh.hexdigest()[:16] + hashlib.sha256((flavor + lang_flags + REPO).encode()).hexdigest()[:8]
    obj = os.path.join(CACHE, "obj", f"{name}-{flavor}-{key}.o")
    with Lock(os.path.join(CACHE, "lock", f"obj-{name}-{flavor}")):
        if not os.path.exists(obj):
            os.makedirs(os.path.dirname(obj), exist_ok=True)
            t0 = time.time()
            cxx = src.endswith(".cc")
            cmd = ["clang++" if cxx else "clang"] + (["-std=gnu++17"] if cxx else []) + \
                "-g -O1 -fno-omit-frame-pointer -DJWT_STATIC_DEFINE".split() + HARNESS_SAN[flavor].split() + \
                lang_flags.split() + [f"-I{REPO}/include", f"-I{bdir}", f"-I{VERIF}/vlib", f"-I{REPO}/libjwt", "-c", src, "-o", obj + ".tmp"]
            r = sh(cmd, stdout=subprocess.PIPE, stderr=subprocess.STDOUT, text=True)
            if r.returncode:
                log(r.stdout[-6000:])
                log("HARNESS COMPILE FAILED", name)
                raise SystemExit(2)
            os.rename(obj + ".tmp", obj)
            log(f"compiled {name} ({flavor}) in {time.time()-t0:.1f}s")
            for old in glob.glob(os.path.join(CACHE, "obj", f"{name}-{flavor}-*.o")):
                if old != obj:
                    os.unlink(old)
    return obj


def build_harness(name, flavor="asan", extra_link="", lang_flags="", src=None):
    """Compile /verif/harness/<name>.cc and link against the freshly built libjwt.a"""
    bdir = build_lib(flavor)
    src = src or os.path.join(VERIF, "harness", name + ".cc")
    obj = harness_obj(name, src, flavor, lang_flags, bdir)
    lib = os.path.join(bdir, "libjwt.a")
    key = hashlib.sha256((obj + file_hash([lib]) + extra_link).encode()).hexdigest()[:16]
    exe = os.path.join(CACHE, "bin", f"{name}-{flavor}-{key}")
    with Lock(os.path.join(CACHE, "lock", f"bin-{name}-{flavor}")):
        if not os.path.exists(exe):
            os.makedirs(os.path.dirname(exe), exist_ok=True)
            cmd = ["clang++"] + HARNESS_SAN[flavor].split() + [obj, lib] + LINK_LIBS.split() + extra_link.split() + ["-o", exe + ".tmp"]
            r = sh(cmd, stdout=subprocess.PIPE, stderr=subprocess.STDOUT, text=True)
            if r.returncode:
                log(r.stdout[-6000:])
                log("HARNESS LINK FAILED", name)
                raise SystemExit(2)
            os.rename(exe + ".tmp", exe)
            for old in sorted(glob.glob(os.path.join(CACHE, "bin", f"{name}-{flavor}-*")), key=os.path.getmtime)[:-4]:
                os.unlink(old)
    return exe


# --------------------------------------------------------------------------
# known findings

def load_known():
    known, fixed = [], []
    p = os.path.join(VERIF, "known-findings.jsonl")
    if os.path.exists(p):
        for l in open(p):
            l = l.strip()
            if not l or l.startswith("#"):
                continue
            e = json.loads(l)
            (known if e.get("status") == "known" else fixed).append(e)
    return known, fixed


def known_match(known, pid, sig):
    for e in known:
        if e["property"] == pid and (e["signature"] == sig or (e["signature"].endswith("*") and sig.startswith(e["signature"][:-1]))):
            return e
    return None


# --------------------------------------------------------------------------
# worker execution

SAN_ENV = {
    "ASAN_OPTIONS": "abort_on_error=0:detect_leaks=0:allocator_may_return_null=1:handle_abort=1:symbolize=1:detect_stack_use_after_return=0:exitcode=99",
    "UBSAN_OPTIONS": "print_stacktrace=1:halt_on_error=1:exitcode=99",
    "LSAN_OPTIONS": "exitcode=98:print_suppressions=0",
    "ASAN_SYMBOLIZER_PATH": shutil.which("llvm-symbolizer") or shutil.which("llvm-symbolizer-14") or "",
}


def san_signature(pid, stderr):
    """root-cause key from a sanitizer report: kind + top libjwt frames (function names only)"""
    kind = "crash"
    m = re.search(r"ERROR: (AddressSanitizer|LeakSanitizer|ThreadSanitizer|UndefinedBehaviorSanitizer): ([^\n(]*?)(?: on | \(|\n|:)", stderr)
    if m:
        kind = (m.group(1)[0:4] + ":" + m.group(2).strip().replace(" ", "-")).lower()
    elif "runtime error:" in stderr:
        m2 = re.search(r"runtime error: ([a-z -]+)", stderr)
        kind = "ubsan:" + (m2.group(1).strip().replace(" ", "-")[:40] if m2 else "ub")
    elif "detected memory leaks" in stderr:
        kind = "lsan:leak"
    frames = []
    for fm in re.finditer(r"#\d+ 0x[0-9a-f]+ in (\S+) (\S+)", stderr):
        fn, loc = fm.group(1), fm.group(2)
        if "/libjwt/" in loc or "/tools/" in loc:
            if fn not in frames:
                frames.append(fn)
        if len(frames) >= 3:
            break
    return f"{pid}:{kind}:{'<'.join(frames) if frames else 'noframe'}"


def run_workers(exe, pid, tier, seed, nworkers, extra_args=(), env_extra=None, timeout=None, known=None):
    """Run nworkers copies of a harness; each writes a stats json. Returns list of dict results."""
    os.makedirs(OUT, exist_ok=True)
    wd = tempfile.mkdtemp(prefix=f"{pid}-", dir=OUT)
    env = dict(os.environ)
    env.update(SAN_ENV)
    # ASan stores every distinct allocation stack for ever (StackDepot): deep, ever-different rapidcheck call chains made one C19 thorough
    # worker grow to 5 GB (9.6M stacks) and the kernel killed workers. Ten frames identify an allocation site well enough.
    env["ASAN_OPTIONS"] += ":malloc_context_size=10"
    if env_extra:
        env.update(env_extra)
    knownf = os.path.join(wd, "known.txt")
    with open(knownf, "w") as f:
        for e in (known or []):
            if e["property"] == pid:
                f.write(e["signature"] + "\n")
    procs = []
    for w in range(nworkers):
        outp = os.path.join(wd, f"w{w}.json")
        errp = os.path.join(wd, f"w{w}.err")
        cmd = [exe, "--tier", tier, "--seed", str(seed), "--worker", str(w), "--nworkers", str(nworkers),
               "--out", outp, "--known", knownf] + list(extra_args)
        p = subprocess.Popen(cmd, stdout=open(os.path.join(wd, f"w{w}.out"), "w"), stderr=open(errp, "w"), env=env, cwd=wd)
        procs.append((p, outp, errp, cmd))
    results = []
    deadline = time.time() + timeout if timeout else None
    for p, outp, errp, cmd in procs:
        try:
            rc = p.wait(timeout=max(1, deadline - time.time()) if deadline else None)
            timed_out = False
        except subprocess.TimeoutExpired:
            p.send_signal(signal.SIGTERM)
            try:
                rc = p.wait(timeout=10)
            except subprocess.TimeoutExpired:
                p.kill()
                rc = p.wait()
            timed_out = True
        st = None
        if os.path.exists(outp):
            try:
                st = json.load(open(outp))
            except Exception as e:
                st = None
        err = open(errp, errors="replace").read()
        results.append({"rc": rc, "stats": st, "stderr": err, "timed_out": timed_out, "cmd": cmd, "wd": wd, "out": outp})
    return results, wd


def merge_stats(results):
    m = {"evaluations": 0, "nontrivial_total": 0, "classes": {}, "samples": [], "violations": [], "known_hits": {},
         "fps": set(), "distinct_by_construction": 0, "extra": {}}
    for r in results:
        st = r["stats"]
        if not st:
            continue
        m["evaluations"] += st.get("evaluations", 0)
        m["nontrivial_total"] += st.get("nontrivial_total", 0)
        m["distinct_by_construction"] += st.get("distinct_by_construction", 0)
        for k, v in st.get("classes", {}).items():
            m["classes"][k] = m["classes"].get(k, 0) + v
        for s in st.get("samples", []):
            if len(m["samples"]) < 12:
                m["samples"].append(s)
        m["violations"].extend(st.get("violations", []))
        for k, v in st.get("known_hits", {}).items():
            m["known_hits"][k] = m["known_hits"].get(k, 0) + v
        for k, v in st.get("extra", {}).items():
            m["extra"][k] = v
        fpf = r["out"] + ".fp"
        if os.path.exists(fpf):
            data = open(fpf, "rb").read()
            m["fps"].update(struct.unpack(f"<{len(data)//8}Q", data[:len(data)//8*8]))
    return m


def write_evidence(pid, tier, seed, level, coverage, assumptions, wall, violations):
    # runs against deliberately broken trees (drv/mut.sh, drv/seedtest.sh) must not overwrite the committed evidence
    if os.environ.get("VERIF_EVIDENCE_DIR"):
        d = os.environ["VERIF_EVIDENCE_DIR"]; os.makedirs(d, exist_ok=True)
        json.dump({"property_id": pid, "tier": tier, "seed": seed, "level": level, "coverage": coverage, "wall_s": round(wall, 2), "violations": violations},
                  open(os.path.join(d, f"{pid}.json"), "w"), indent=1, default=str)
        return
    os.makedirs(os.path.join(VERIF, "evidence"), exist_ok=True)
    ev = {"property_id": pid, "tier": tier, "seed": seed, "level": level, "coverage": coverage,
          "assumptions": assumptions, "wall_s": round(wall, 2), "violations": violations}
    tmp = os.path.join(VERIF, "evidence", f".{pid}.json.tmp")
    with open(tmp, "w") as f:
        json.dump(ev, f, indent=1, sort_keys=True, default=str)
    os.rename(tmp, os.path.join(VERIF, "evidence", f"{pid}.json"))


def save_replay(pid, sig, replay):
    d = os.path.join(OUT, "replay", pid)
    os.makedirs(d, exist_ok=True)
    p = os.path.join(d, hashlib.sha256(sig.encode()).hexdigest()[:12] + ".json")
    with open(p, "w") as f:
        json.dump(replay, f, indent=1, sort_keys=True)
    return p


def main():
    from props import CHECKS
    ap = argparse.ArgumentParser()
    ap.add_argument("prop", nargs="?")
    ap.add_argument("--tier", default=os.environ.get("VERIF_TIER", "quick"), choices=["quick", "thorough"])
    ap.add_argument("--replay")
    ap.add_argument("--setup", action="store_true")
    ap.add_argument("--list", action="store_true")
    a = ap.parse_args()
    seed = int(os.environ.get("VERIF_SEED", "1") or "1")
    if a.list:
        for k in sorted(CHECKS):
            print(k, CHECKS[k].__doc__ or "")
        return 0
    if a.setup:
        from props import setup_all
        return setup_all()
    if a.prop not in CHECKS:
        print("unknown property", a.prop, file=sys.stderr)
        return 2
    import props
    ctx = props.Ctx(a.prop, a.tier, seed)
    if a.replay:
        return props.replay(ctx, a.replay)
    return props.run_check(ctx)


if __name__ == "__main__":
    sys.exit(main())
