// C01 - no token accepted without a valid signature: mutation-based forgeries (rapidcheck) against an
// independent verifier (vkeys.h ref_valid).
#include <rapidcheck.h>
#include "vlib.h"
#include "vkeys.h"
#include "vmut.h"
using namespace v;

struct Case { int prov, key, algi, cfg, pay; std::vector<Mut> muts; std::string token; };
template <typename T> static rc::Gen<T> UNI(T lo, T hi) { return rc::gen::resize(100, rc::gen::inRange<T>(lo, hi)); }
static Case CUR;
static std::string case_json(const Case &c) {
  std::string m = "[";
  for (size_t i = 0; i < c.muts.size(); i++) { m += (i ? "," : ""); m += "[\"" + std::string(MN[c.muts[i].kind]) + "\"," + std::to_string(c.muts[i].a) + "," + std::to_string(c.muts[i].b) + "," + std::to_string(c.muts[i].c) + "]"; }
  m += "]";
  const KeySpec &k = *KEYS[c.key];
  return "{\"provider\":\"" + std::string(prov_name(c.prov)) + "\",\"prov\":" + std::to_string(c.prov) + ",\"key\":\"" + k.name + "\",\"alg\":\"" + ALGS[c.algi].name + "\",\"cfg\":" + std::to_string(c.cfg) +
         ",\"pay\":" + std::to_string(c.pay) + ",\"mutations\":" + m + ",\"token\":" + jstr(c.token) + "}";
}

struct CbCtx { const jwk_item_t *key; jwt_alg_t alg; };
static int cb_fn(jwt_t *, jwt_config_t *c) { CbCtx *x = (CbCtx *)c->ctx; c->key = x->key; c->alg = x->alg; return 0; }

// returns "" when the property holds for this case, else the violated clause
static std::string run_case(const Case &c, bool count) {
  Stats &st = stats();
  const KeySpec &k = *KEYS[c.key]; jwt_alg_t alg = ALGS[c.algi].alg;
  CUR = c;
  set_provider(c.prov);
  jwt_checker_t *ch = jwt_checker_new();
  CbCtx cx{nullptr, alg};
  int sr = 0;
  switch (c.cfg) {
  case 0: sr = jwt_checker_setkey(ch, alg, lkey(k, "").item); break;                       // explicit alg only
  case 1: sr = jwt_checker_setkey(ch, JWT_ALG_NONE, lkey(k, jwt_alg_str(alg)).item); break; // key alg only
  case 2: sr = jwt_checker_setkey(ch, alg, lkey(k, jwt_alg_str(alg)).item); break;          // both
  case 3: cx.key = lkey(k, "").item; sr = jwt_checker_setcb(ch, cb_fn, &cx); break;         // via callback
  }
  if (sr) { jwt_checker_free(ch); return "setup-failed"; }
  int ret = jwt_checker_verify(ch, c.token.c_str());
  std::string msg = jwt_checker_error_msg(ch) ? jwt_checker_error_msg(ch) : "";
  jwt_checker_free(ch);
  std::string why; bool valid = ref_valid(k, c.token, &why);
  bool reached_crypto = ret == 0 || msg.find("failed verification") != std::string::npos || msg.find("JWT[") == 0 || msg.find("decoding signature") != std::string::npos;
  if (count) {
    st.evaluations++;
    st.cls(ret == 0 ? "accepted" : reached_crypto ? "rejected-by-crypto-layer" : msg.find("alg") != std::string::npos || msg.find("Alg") != std::string::npos ? "rejected-by-policy" : msg.find("arsing") != std::string::npos || msg.find("dot") != std::string::npos ? "rejected-by-parser" : "rejected-other");
    for (auto &m : c.muts) st.cls(std::string("mut:") + MN[m.kind]);
    if (c.muts.empty()) st.cls("unmutated-control");
    if (reached_crypto) { uint64_t fp = mix(fnv(c.token), mix(c.prov, mix(c.key, mix(c.algi, c.cfg)))); st.nontrivial(fp); }
    if (st.want_sample()) st.sample(case_json(c));
  }
  if (ret == 0 && !valid) {
    // refine the cause so that a known finding is identified by what exactly fails
    TokParts tp = split_token(c.token);
    if (k.kind == K_OKP && k.bits == 456 && tp.ok && tp.s_ok && tp.sdec.size() == 114 && tp.sdec[113] != 0) {
      std::string z = tp.sdec; z[113] = 0;
      if (ref_verify(k, alg, tp.signing_input, z)) why = "ed448-signature-valid-except-nonzero-last-byte";
    }
    return "accepts-invalid:" + why;
  }
  if (c.muts.empty() && ret != 0 && !(c.prov == 1 && (alg == JWT_ALG_ES256K || k.crv == "secp256k1"))) return "control-rejected";
  return "";
}

static std::string sig_class(const Case &c) {
  const KeySpec &k = *KEYS[c.key];
  return std::string(k.kind == K_OCT ? "oct" : k.kind == K_RSA ? "rsa" : k.kind == K_EC ? "ec" : "okp") + ":" + prov_name(c.prov);
}

int main(int argc, char **argv) {
  Args a = parse_args(argc, argv);
  POOL = standard_pool();
  std::vector<std::string> names = {"oct32", "oct64", "oct77", "rsa_2048", "ec_p256", "ec_p384", "ec_p521", "ec_k256", "ed25519", "ed448"};
  if (a.thorough()) { names.push_back("rsa_3072"); names.push_back("rsa_4096"); names.push_back("oct48"); }
  for (auto &n : names) KEYS.push_back(&POOL.get(n));
  static KeySpec rsa2050 = load_fixture("rsa_2050"); KEYS.push_back(&rsa2050);   // modulus length not a multiple of 8 bits
  // (key, alg) cells
  std::vector<std::pair<int, int>> cells;
  for (size_t ki = 0; ki < KEYS.size(); ki++) for (int ai = 0; ai < NALGS; ai++) if (strength_ok(*KEYS[ki], ALGS[ai].alg)) cells.push_back({(int)ki, ai});
  cur_case() = [] { return case_json(CUR); };
  Stats &st = stats();

  if (!a.replay.empty()) {
    J j = J::parse(read_file(a.replay)); if (!j) return 2;
    Case c; c.prov = (int)json_integer_value(json_object_get(j.p, "prov")); c.cfg = (int)json_integer_value(json_object_get(j.p, "cfg")); c.pay = 0;
    std::string kn = json_string_value(json_object_get(j.p, "key")), an = json_string_value(json_object_get(j.p, "alg"));
    c.key = -1; for (size_t i = 0; i < KEYS.size(); i++) if (KEYS[i]->name == kn) c.key = (int)i;
    if (c.key < 0) { KEYS.push_back(&POOL.get(kn)); c.key = (int)KEYS.size() - 1; }
    c.algi = -1; for (int i = 0; i < NALGS; i++) if (an == ALGS[i].name) c.algi = i;
    c.token = from_latin1_utf8(json_string_value(json_object_get(j.p, "token")));
    c.muts.push_back({M_RAW_BYTE, 0, 0, 0});  // not a control
    std::string r = run_case(c, false);
    return r.empty() ? 0 : 3;
  }

  uint64_t n = a.thorough() ? 150000 : 2500;
  if (a.kv.count("cases")) n = strtoull(a.kv["cases"].c_str(), 0, 10);
  std::string params = "seed=" + std::to_string(a.seed * 1000 + a.worker) + " max_success=" + std::to_string(n) + " max_size=60 max_discard_ratio=50";
  setenv("RC_PARAMS", params.c_str(), 1);
  Case lastfail; std::string lastwhy;
  bool ok = rc::check("C01: verify==0 only for tokens valid under the configured key", [&]() {
    Case c;
    auto cell = *rc::gen::elementOf(cells);
    c.key = cell.first; c.algi = cell.second;
    c.prov = *UNI(0, 2); c.cfg = *UNI(0, 4); c.pay = *UNI(0, NPAY);
    int nm = *rc::gen::weightedElement<int>({{1, 0}, {10, 1}, {4, 2}, {2, 3}});
    for (int i = 0; i < nm; i++) { Mut m; m.kind = *UNI<int>(0, (int)M_NKINDS); m.a = *UNI(0, 1 << 20); m.b = *UNI(0, 1 << 20); m.c = *UNI(0, 1 << 20); c.muts.push_back(m); }
    const KeySpec &k = *KEYS[c.key]; jwt_alg_t alg = ALGS[c.algi].alg;
    std::string t = base_token(k, alg, c.pay);
    for (auto &m : c.muts) t = apply(k, alg, c.pay, t, m);
    t = t.substr(0, t.find('\0'));
    c.token = t;
    std::string r = run_case(c, true);
    if (!r.empty()) {
      std::string sig = "C01:" + r + ":" + sig_class(c);
      if (st.is_known(sig)) { st.known_hits[sig]++; return; }
      lastfail = c; lastwhy = r;
      RC_FAIL(r);
    }
  });
  if (!ok && !lastwhy.empty()) {
    // the last failing case seen is the shrunk one
    std::string sig = "C01:" + lastwhy + ":" + sig_class(lastfail);
    st.violation(sig, "checker accepted a token the reference verifier rejects (or rejected the unmutated control): " + lastwhy, case_json(lastfail));
  }
  st.extra["key_alg_cells"] = std::to_string(cells.size());
  return finish();
}
