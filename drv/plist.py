"""Per-property check definitions."""
import os, sys, json, glob, shutil, subprocess, time
import props as P
ck = P.ck
VERIF = ck.VERIF

BUILD_JOBS = []
REPLAYERS = {}   # pid -> fn(ctx, path) -> bool violated


def harness_job(name, flavor="asan", extra_link="-lrapidcheck", src=None):
    BUILD_JOBS.append(lambda: ck.build_harness(name, flavor, extra_link=extra_link, src=src))


def fuzz_job(name):
    BUILD_JOBS.append(lambda: ck.build_harness(name, "fuzz", src=os.path.join(VERIF, "fuzz", name + ".cc")))


def std_replayer(pid, name, extra_link="-lrapidcheck"):
    def fn(ctx, path):
        exe = ck.build_harness(name, "asan", extra_link=extra_link)
        return P.harness_replay_fn(exe, pid)(path)
    REPLAYERS[pid] = fn


# ---------------------------------------------------------------- C11
harness_job("C11_codec", extra_link="")
std_replayer("C11", "C11_codec", extra_link="")


@P.check("C11")
def c11(ctx):
    """base64url codec: exhaustive small inputs + buffer arithmetic + fuzz"""
    rule = ("enumerated: every byte string of length 0-3 through encode+decode; every string of length 1-4 over "
            "a 80-symbol alphabet (quick: both base64 alphabets, '=', '.', one representative per foreign byte class) "
            "or over all 255 NUL-free bytes (thorough) through decode; every length 0-4096 plus random lengths to 64KiB with "
            "seeded content through encode/decode/mutated decode under ASan. Part 4, users of the decoder: every base64url member of every key type (private/public) and every token segment corrupted in 10 ways (foreign byte, length 1 mod 4, space, '.', ',', newline, bytes >= 0x80, NUL + junk) through 4 loaders x 2 providers must be rejected; RSA / EC number members re-encoded with leading zero octets (or without theirs) import as the same key. Non-trivial = input with a tail "
            "(len%3!=0 or len%4 in {2,3}), a 62/63 sextet, or a foreign/'='/'.' byte; enumerated inputs are distinct by construction.")
    cov, mn = P.generic_harness_check(
        ctx, "C11_codec", rule,
        ["own RFC 4648 codec in vlib.h is the reference", "ASan/UBSan detect out-of-bounds access",
         "inputs the statement leaves open (non-canonical tail bits, text after '=') may be rejected or decoded leniently"],
        extra_link="", exhaustive=True, min_nontrivial={"quick": 1000000, "thorough": 1000000})
    return P.finish(ctx, "exploration", cov, cov.pop("_assumptions", None) or
                    ["own RFC 4648 codec in vlib.h is the reference", "ASan/UBSan detect out-of-bounds access"], mn)


# ---------------------------------------------------------------- C02 / C03
harness_job("C02_matrix", extra_link="")
std_replayer("C02", "C02_matrix", extra_link="")
REPLAYERS["C03"] = lambda ctx, path: P.harness_replay_fn(ck.build_harness("C02_matrix", "asan", extra_link=""), "C03", ["--prop", "C03"])(path)

def c02_tool_cell(tools, helper, wd, spec):
    """one command-line cell: jwt-generate / jwt-verify given an explicit -a that differs from the key's alg attribute must refuse. Returns '' or the clause."""
    import subprocess, base64
    fixture, keyalg, explicit, mode, tool = spec["fixture"], spec["keyalg"], spec["explicit"], spec["mode"], spec["tool"]
    env = dict(os.environ); env.update(ck.SAN_ENV)
    pre = os.path.join(wd, f"{fixture}-{keyalg}")
    if not os.path.exists(pre + ".json"):
        if fixture.startswith("oct"):
            subprocess.run([helper, "gen", fixture, pre, "0"], env=env, stdout=subprocess.DEVNULL, stderr=subprocess.DEVNULL); src = pre + ".bin"
        else:
            subprocess.run([helper, "copyfix", fixture, pre], env=env, stdout=subprocess.DEVNULL, stderr=subprocess.DEVNULL); src = pre + ".pem"
        for form in ("priv", "pub"):
            r = subprocess.run([helper, "mkjwk", src, keyalg, form], env=env, stdout=subprocess.PIPE, stderr=subprocess.DEVNULL, text=True)
            open(pre + (".json" if form == "priv" else "_pub.json"), "w").write(r.stdout)
        r = subprocess.run([helper, "token", src, keyalg, '{"sub":"c02"}'], env=env, stdout=subprocess.PIPE, stderr=subprocess.DEVNULL, text=True)
        open(pre + ".tok", "w").write(r.stdout.strip())
    flags = {"quiet": ["-q"], "default": [], "verbose": ["-v"]}[mode]
    if tool == "jwt-generate":
        r = subprocess.run([os.path.join(tools, "jwt-generate"), "-a", explicit, "-k", pre + ".json"] + flags, env=env, stdout=subprocess.PIPE, stderr=subprocess.PIPE, text=True, timeout=120)
        if explicit == keyalg:
            return "" if r.returncode == 0 else "tool-refuses-matching-explicit-alg:jwt-generate"
        if r.returncode == 0:
            tok = [l for l in r.stdout.strip().split("\n") if l.count(".") == 2 and l.startswith("ey")]
            alg = "?"
            if tok:
                h = tok[-1].split(".")[0]; h += "=" * (-len(h) % 4)
                try: alg = json.loads(base64.urlsafe_b64decode(h)).get("alg", "?")
                except Exception: pass
            return f"tool-produces-token-although-explicit-alg-differs-from-key-alg:jwt-generate:{mode}"
        return ""
    pub = pre + ("_pub.json" if not fixture.startswith("oct") else ".json")
    r = subprocess.run([os.path.join(tools, "jwt-verify"), "-a", explicit, "-k", pub] + flags + [open(pre + ".tok").read()], env=env, stdout=subprocess.PIPE, stderr=subprocess.PIPE, text=True, timeout=120)
    if explicit == keyalg:
        return "" if r.returncode == 0 else "tool-refuses-matching-explicit-alg:jwt-verify"
    return f"tool-verifies-although-explicit-alg-differs-from-key-alg:jwt-verify:{mode}" if r.returncode == 0 else ""


C02_TOOL_SPECS = [{"fixture": f, "keyalg": ka, "explicit": ex, "mode": m, "tool": t}
                  for f, ka, exs in (("rsa_2048", "PS256", ["PS256", "RS256", "PS512", "ES256", "HS256"]), ("rsa_2048", "RS384", ["RS384", "RS256", "PS384"]),
                                     ("ec_p256", "ES256", ["ES256", "ES256K", "ES384", "RS256", "HS256"]), ("oct64", "HS256", ["HS256", "HS512", "RS256"]), ("ed25519", "EdDSA", ["EdDSA", "ES256"]))
                  for ex in exs for m in ("quiet", "default", "verbose") for t in ("jwt-generate", "jwt-verify")]


def c02_tools(ctx, cov):
    """the command-line tools are applications that pin an explicit algorithm (-a) next to a key: the pair must be refused when the key names another one"""
    import tempfile
    bdir = ck.build_lib("asan", tools=True); helper = ck.build_harness("C20_helper", "asan", extra_link="")
    os.makedirs(P.OUT, exist_ok=True); wd = tempfile.mkdtemp(prefix="C02-tools-", dir=P.OUT); n = 0
    for spec in C02_TOOL_SPECS:
        r = c02_tool_cell(os.path.join(bdir, "tools"), helper, wd, spec); n += 1
        if r:
            def confirm(path, spec=spec, bdir=bdir, helper=helper, wd=wd): return bool(c02_tool_cell(os.path.join(bdir, "tools"), helper, wd, spec))
            P.handle_violation(ctx, "C02:" + r, f"{spec['tool']} -a {spec['explicit']} with a {spec['fixture']} key whose alg attribute is {spec['keyalg']} ({spec['mode']} mode)", {"kind": "tool", "spec": spec}, confirm)
    cov["tool_cells"] = n
    cov.setdefault("classes", {})["tool-cells(jwt-generate/jwt-verify -a vs key alg)"] = n
    if not ctx.violations: shutil.rmtree(wd, ignore_errors=True)


def c02_replay(ctx, path):
    j = json.load(open(path))
    if j.get("kind") == "tool":
        import tempfile
        bdir = ck.build_lib("asan", tools=True); helper = ck.build_harness("C20_helper", "asan", extra_link="")
        wd = tempfile.mkdtemp(prefix="C02-tools-replay-", dir=P.OUT)
        try: return bool(c02_tool_cell(os.path.join(bdir, "tools"), helper, wd, j["spec"]))
        finally: shutil.rmtree(wd, ignore_errors=True)
    return P.harness_replay_fn(ck.build_harness("C02_matrix", "asan", extra_link=""), "C02")(path)
REPLAYERS["C02"] = c02_replay


MATRIX_ASSUME = ["reference signer/verifier in vkeys.h (raw OpenSSL EVP) decides cryptographic validity",
                 "keys are imported through the public JWK loader; errored items are not passed to setkey",
                 "GnuTLS: no positive assertion for ES256K / secp256k1 (unsupported there)"]


@P.check("C02")
def c02(ctx):
    """algorithm pinning: exhaustive (explicit alg x key x key alg attr x header alg x route x signature) matrix"""
    rule = ("exhaustive product: explicit alg (none, 14 algorithms, INVAL) x key config (absent, or key type x alg attribute in "
            "{none, each alg of its family, alg of another family, wrong-size EC alg, unknown string}, plus crafted oct keys whose leading bytes "
            "mimic an EVP_PKEY type id) x header alg variant (14 names, none, case variants, padded, unknown, empty, missing, non-string) x route "
            "(setkey, callback selects key+alg / key / alg) x signature (absent, garbage, HMAC under empty / public-PEM / raw-public key, "
            "attacker's own key pair, real key) x provider; builder: explicit alg x key config x route x private/public. "
            "Also: callback installed in one or two steps (idle context, then ctx-only setcb) in alternate cells; route 'setkey K1 then callback swaps in K2'; signature kinds 'real key, native alg under a header of another family', garbage of exactly 256 and 65536 characters; header variants with escaped NUL; oct keys of exactly the sizes asymmetric size tests look for; the active provider's three sign/verify entries are wrapped (jwt_ops) and an asymmetric operation entered with an oct key or HMAC entered with an asymmetric key is reported. Non-trivial = at least two of {explicit alg, key alg attr, header alg} set and the signature computable by an attacker or the real key (verify), "
            "any keyed cell (builder); cells are distinct by construction.")
    cov, mn = P.generic_harness_check(ctx, "C02_matrix", rule, MATRIX_ASSUME, extra_link="", exhaustive=True,
                                      min_nontrivial={"quick": 50000, "thorough": 50000})
    if not ctx.violations:
        c02_tools(ctx, cov)
    return P.finish(ctx, "exploration", cov, MATRIX_ASSUME, mn)


@P.check("C03")
def c03(ctx):
    """unsigned tokens: configurations x token shapes, two-sided for key-less checkers"""
    rule = ("exhaustive product of checker/builder configurations (no key; key with/without alg attr; explicit alg; callback leaving alg default / "
            "setting key / alg / both) x header alg variants (none/None/NONE/known/unknown/missing/non-string) x signature (absent, garbage, real) "
            "x provider, plus token shapes with 2-5+ segments and third segment in {empty, 1-2 chars, valid HS/ES signature, junk, '='}. "
            "Also: callback installed in one or two steps (ctx-only setcb); signatures of exactly 256 / 65536 characters; escaped-NUL alg variants; every second builder cell carries an application-set alg header member (the emitted alg is still the resolved one); shapes with '='-padded payload segments and signatures over everything before the LAST dot; setkey-history cells (an accepted pair, then a refused call, then use: the first pair stays in force). Non-trivial = cell with a key, or empty third segment, or an alg-none variant; cells distinct by construction, shapes by token hash.")
    cov, mn = P.generic_harness_check(ctx, "C02_matrix", rule, MATRIX_ASSUME, extra_link="", extra_args=["--prop", "C03"], exhaustive=True,
                                      min_nontrivial={"quick": 5000, "thorough": 5000})
    return P.finish(ctx, "exploration", cov, MATRIX_ASSUME, mn)


# ---------------------------------------------------------------- C01
harness_job("C01_forge")
std_replayer("C01", "C01_forge")


@P.check("C01")
def c01(ctx):
    """forgery search: mutated/adversarially assembled tokens vs an independent verifier; + raw-text fuzzing"""
    rule = ("rapidcheck: (provider, key, admissible alg, checker config in {explicit alg, key alg, both, callback}, payload, 0-3 mutation steps from 22 operators: "
            "char/bit flips, raw bytes, signature truncation/extension/padding junk, empty/zero/random/wrong-length signatures, signature of another token / "
            "another key / another alg, ECDSA specials (r,s in {0,n}, (r,n-s), re-padded or stripped r||s), EdDSA S+L, RSA zero byte, header alg swap with "
            "kept / empty-key-HMAC / public-PEM-HMAC / real-key signatures, payload change, part swaps, header re-encoding, std alphabet). "
            "Oracle: verify==0 => reference verifier accepts (lenient base64, header alg's algorithm, exact signing input). "
            "Deterministic parts: (a) keys nobody can sign for - RSA public JWKs with made-up moduli of 2048..65536 bits, items flagged 'Invalid alg type' after loading, HS* tokens keyed with nothing / public PEM / raw public numbers against every asymmetric key - every token must be rejected via setkey and via callback; (b) for every EC key, signatures with short r, short s, both: all ten special encodings (the tenth: r = -e/d mod n, s = 1 - the verifier's point at infinity, which OpenSSL reports as an error) x provider x route; (c) same address, other key: with a recycling allocator (jwt_set_alloc) key A is loaded, used and freed, key B lands at its address and must reject A's tokens, accept its own and sign as B; (d) every asymmetric key's own kind of signature under a header that names an algorithm of another family (ES256-style under EdDSA/RS*/PS*, EdDSA under ES*, ...), key without alg attribute; (e) key history: K0 by setkey, a callback hands out KB for one token and then leaves the configuration alone or is removed - KB's tokens are rejected, K0's accepted; (f) concurrent retarget: 4 threads with own checkers and one shared key, two verify a genuine token, two a token carrying its signature under another payload - never accepted. Signature extensions include 255/256/257/512..131072 characters; constant-fill signatures 0x00/0xff/0x80/0x7f. Non-trivial = the case reached signature evaluation (accepted, or rejected by the crypto layer); distinct by hash of (token, provider, key, alg, config).")
    assumptions = ["reference verifier in vkeys.h on raw OpenSSL EVP decides validity (PSS: any salt length; ECDSA: fixed-width r||s)",
                   "structural forgeries only; primitives are trusted"]
    cov, mn = P.generic_harness_check(ctx, "C01_forge", rule, assumptions, min_nontrivial={"quick": 5000, "thorough": 50000})
    return P.finish(ctx, "exploration", cov, assumptions, mn)


# ---------------------------------------------------------------- C06
fuzz_job("fz_token_raw")
fuzz_job("fz_token_struct")


def fuzz_pair_check(ctx, targets, rule, assumptions, quick_s, thorough_s, max_len, min_nt):
    """run several libFuzzer targets concurrently, split the cores between them"""
    from concurrent.futures import ThreadPoolExecutor
    secs = thorough_s if ctx.tier == "thorough" else quick_s
    per = max(1, ck.NCPU // len(targets))
    nrep = 0
    for t, corp in targets:
        exe = ck.build_harness(t, "fuzz", src=os.path.join(VERIF, "fuzz", t + ".cc"))
        nrep += P.run_fuzz_replays(ctx, exe, t)
    def one(tc):
        t, corp = tc
        return t, P.run_fuzz(ctx, t, [os.path.join(VERIF, "corpus", c) for c in corp], secs, per, max_len=max_len)
    with ThreadPoolExecutor(max_workers=len(targets)) as ex:
        res = list(ex.map(one, targets))
    execs = 0; nt = 0; classes = {}; samples = []; fps = set(); per_target = {}
    for t, (exe, wd, arts, st, ne) in res:
        P.collect_fuzz(ctx, exe, arts)
        execs += ne; nt += st["nontrivial"]; fps |= st["fps"]
        for k, v in st["classes"].items():
            classes[t + ":" + k] = v
        samples += st["samples"][:4]
        per_target[t] = {"execs": ne, "target_evaluations": st["evaluations"], "artifacts": len(arts)}
        if not ctx.violations:
            shutil.rmtree(wd, ignore_errors=True)
    cov = {"evaluations": execs, "distinct_nontrivial": len(fps), "nontrivial_evaluations": nt, "rule": rule, "samples": samples[:10],
           "classes": classes, "per_target": per_target, "seconds_per_worker": secs, "workers_per_target": per, "replay_tier_inputs": nrep}
    return P.finish(ctx, "exploration", cov, assumptions, min_nt)


@P.check("C06")
def c06(ctx):
    """arbitrary token bytes: coverage-guided fuzzing (raw text + structure-aware) under ASan/UBSan/LSan with a semantic oracle"""
    rule = ("libFuzzer, two targets over a table of 34 checker configurations (no key / oct / RSA / RSA-PSS attr / EC incl. cross-curve pairings / OKP; "
            "explicit alg, key alg or both; exp/nbf on/off/leeway; iss set; read-only callback; both providers): fz_token_raw feeds the token text as is; "
            "fz_token_struct gets header bytes, payload bytes and signature bytes, base64url-encodes them (optionally std alphabet / padding) and can sign "
            "header.payload with the configured key so that accept paths are reached. Oracle in the target: returns without sanitizer report or leak; "
            "verify==0 => two dots, header decodes to a JSON object with a known string alg, payload decodes to JSON, and (keyed) signature valid under the "
            "independent verifier. Selector bits: application allocator, checker reused after a rejection, non-empty OpenSSL error queue; configurations with expected iss/sub/aud and positive leeways; seeds with registered claims of every JSON type, time claims at the ends of int64, constant-fill signatures, printf conversions, alg members of every shape; selector bit 12 installs a callback that reads the token and refuses it (a zero return is then an oracle failure). Non-trivial = input that passed both dot scans and header base64 (counted in the target), distinct by hash of (token, config).")
    assumptions = ["libFuzzer campaigns are only approximately pinned by -seed; saved crash-/leak- artifacts are the reproducible unit",
                   "timeout/oom/slow-unit artifacts are load noise, not violations",
                   "known dependency finding (nettle ignores the last Ed448 signature byte) is excluded by construction inside the target and counted"]
    return fuzz_pair_check(ctx, [("fz_token_raw", ["C06/raw"]), ("fz_token_struct", ["C06/struct"])], rule, assumptions, 40, 600, 65536,
                           {"quick": 2000, "thorough": 20000}.get(ctx.tier, 2000))


# ---------------------------------------------------------------- C07
fuzz_job("fz_jwks_raw")
fuzz_job("fz_jwks_shape")


@P.check("C07")
def c07(ctx):
    """arbitrary JWK/JWKS input: coverage-guided fuzzing (raw bytes + JWK-shape generator) with a keyring well-formedness oracle"""
    rule = ("libFuzzer, two targets through all entry points (jwks_create_strn, jwks_load_strn onto an existing set, jwks_create, jwks_load, "
            "jwks_load_fromfp via fmemopen, jwks_load_fromfile via memfd) on both providers: fz_jwks_raw feeds bytes as is (seeded with the repository's key files); "
            "fz_jwks_shape builds JWK objects member by member (kty alg use key_ops kid crv x y d n e p q dp dq qi k + unknown), each absent / null / number / bool / "
            "array / object / empty / non-base64 / wrong-length base64 / correct value of a fixture key / arbitrary string, wrapped as bare object, keys array (0-4), "
            "keys non-array, top-level array or scalar. Oracle: no sanitizer report or leak; not JSON (most lenient jansson flags) => set error + message + no new item; "
            "JSON (library flags) => no set error, item count = |keys| or 1, kid/oct bytes of item i come from element i, every item has error+message or known kty + "
            "key material (oct bytes equal decode of k; PEM parses; bits>0) and survives being used by a checker/builder. "
            "Entries also load_fromfp/load_fromfile onto an existing set and jwks_create_from*; the existing set carries a stale error every second time and was emptied first (free_all / item by item) every second time; every reader of every item is called; application allocator and error-queue bits; one input in seven hands over ZERO bytes of an unterminated heap copy of the document (expected: error, no items); a share of the inputs runs with a page-guard allocator (every block ends at an inaccessible page: over-reads inside uninstrumented libraries fault). Non-trivial = document that parses and contains an element with a known kty (reached a per-type parser); distinct by hash of (document, entry, provider).")
    assumptions = ["jansson decides what is JSON (most lenient flags for 'not JSON', library flags for 'JSON')",
                   "documents whose keys member is not an array are checked for memory safety and item well-formedness only (statement is silent)",
                   "libFuzzer campaigns are only approximately pinned by -seed; saved artifacts are the reproducible unit"]
    return fuzz_pair_check(ctx, [("fz_jwks_raw", ["C07/raw"]), ("fz_jwks_shape", [])], rule, assumptions, 40, 600, 16384,
                           {"quick": 2000, "thorough": 20000}.get(ctx.tier, 2000))


# ---------------------------------------------------------------- C04
harness_job("C04_claims")
std_replayer("C04", "C04_claims")


@P.check("C04")
def c04(ctx):
    """claim policy: histories of claim_set/claim_del/time_leeway + boundary-relative tokens vs a two-sided reference model under a fake clock"""
    rule = ("rapidcheck: histories (1-17 steps) of jwt_checker_claim_set/claim_del/time_leeway (valid and invalid arguments), clock jumps and verify calls on two "
            "long-lived checkers (unsigned alg-none tokens without key; HS256 tokens with key). Each token is generated relative to the policy in force: exp/nbf = "
            "boundary+delta (delta in -2..2), 64-bit extremes, random, or a wrong JSON type (real, exponent, string, bool, null, array, object, beyond int64); iss/sub/aud "
            "absent, equal, prefix, extended, case-changed, empty, other, trailing space, wrong JSON type, or containing an escaped NUL. Oracle: verdict == reference policy "
            "(both directions), return codes of configuration calls, jwt_checker_claim_get == model after every step. String claims also as expected value + 255/256/257/512/65536/65537 characters. Every second worker runs in a non-UTC time zone; every second sequence has an observing callback on the checkers; signed tokens are verified under three checkers (explicit algorithm, algorithm from the key's attribute, key from a callback). Non-trivial = verify decided within |delta|<=1 of a "
            "boundary, by a wrong-typed claim, by a confusion string, or after a claim_del; distinct by hash of (payload, clock, leeways, expected claims, checker).")
    assumptions = ["clock in [0,2^41], leeways in negatives or [0,2^40] (no time_t overflow provoked)", "strings are valid UTF-8 without embedded NUL",
                   "the model follows the code for the leeway sign (exp > now - leeway, nbf <= now + leeway), as the statement does",
                   "a payload jansson cannot parse with the library's flags (escaped NUL, integer beyond int64) is expected to be rejected"]
    cov, mn = P.generic_harness_check(ctx, "C04_claims", rule, assumptions, min_nontrivial={"quick": 20000, "thorough": 200000})
    return P.finish(ctx, "exploration", cov, assumptions, mn)


# ---------------------------------------------------------------- C15
def c15_link():
    # the C15 harness links a small C file that uses the real jwt.h value macros (they are C only)
    return "-lrapidcheck " + ck.harness_obj("cmacros", os.path.join(VERIF, "vlib", "cmacros.c"), "asan", "", ck.build_lib("asan"))


BUILD_JOBS.append(lambda: ck.build_harness("C15_map", "asan", extra_link=c15_link()))


def c15_replayer(ctx, path):
    return P.harness_replay_fn(ck.build_harness("C15_map", "asan", extra_link=c15_link()), "C15")(path)


REPLAYERS["C15"] = c15_replayer


@P.check("C15")
def c15(ctx):
    """typed map: exhaustive short op sequences + random long ones vs std::map model on builders and callback jwt_t objects"""
    rule = ("all sequences of length <=3 (thorough: <=4) over a 34-operation alphabet (set INT/STR/BOOL/JSON with and without replace, colliding names, empty and NULL names, "
            "NULL string, malformed/scalar/duplicate-key JSON, whole-object merge with and without replace, typed gets, delete one/all) on six targets (builder headers, builder "
            "claims, the jwt_t of a generate callback and of a verify callback, headers and claims each); plus rapidcheck sequences of length 1-40 over the full op product "
            "(7 names x value tables at type boundaries). Oracle: std::map model of the statement: return code, value.error, returned value, and whole-object snapshot "
            "json_equal to the model after every operation. JSON pool with members of every JSON type, 17-digit reals, DBL_MAX, 2^53+1; a name that differs from another only beyond 256 characters; dirty jwt_value_t; builder sequences contain generate() operations (maps unchanged); the real jwt.h macros (vlib/cmacros.c, C) in read-then-write idioms through one jwt_value_t. Non-trivial = sequence with a collision, a merge over existing members, or delete-all followed by a set; "
            "distinct by hash of (target, operation list).")
    assumptions = ["names and strings are valid UTF-8 without embedded NUL", "GET JSON of a scalar member may return TYPE or INVALID",
                   "only object payloads are used for the verify-callback target"]
    cov, mn = P.generic_harness_check(ctx, "C15_map", rule, assumptions, extra_link=c15_link(), exhaustive=True, min_nontrivial={"quick": 20000, "thorough": 200000})
    return P.finish(ctx, "exploration", cov, assumptions, mn)


# ---------------------------------------------------------------- C16
harness_job("C16_keyring")
std_replayer("C16", "C16_keyring")
LEAK_ENV = {"ASAN_OPTIONS": ck.SAN_ENV["ASAN_OPTIONS"].replace("detect_leaks=0", "detect_leaks=1") + ":leak_check_at_exit=0"}


@P.check("C16")
def c16(ctx):
    """keyring as ordered list: exhaustive short op sequences + random long ones vs vector model, ASan + per-sequence LSan"""
    rule = ("all sequences of length <=4 (thorough: <=5) over a 16-operation alphabet (load good key / duplicate kid / no kid / bad key / mixed set good,bad,good / EC key / "
            "non-JSON / empty keys array via jwks_load, jwks_load_strn and jwks_load_fromfp in rotation; item_get and item_free at first/middle/last/count/count+7; "
            "find_bykid existing/prefix/absent/extended/duplicate; free_bad; free_all; error_clear), plus rapidcheck sequences of length 1-60. Every loaded key carries a "
            "unique tag (oct key bytes / kid). Oracle: vector model - every return value, and after every operation count, identity and error flag of each item_get(i), "
            "NULL at and beyond count, jwks_error and jwks_error_any; ASan on every step; __lsan_do_recoverable_leak_check() after freeing the set of every sequence. "
            "17 operations (adds loads of keys that fail half-way: EC x/y/d, RSA e/p, OKP x). Every sequence is run twice: state inspected after every step, and inspected at the end only (get(count) first, scan from the back); out-of-range indices 256, 65536, 2^31, 2^32(+1), 2^63(+1), SIZE_MAX(-1) for get and free; kid lookups with 256/65536 extra characters; odd workers under GnuTLS; every fourth worker with a recycling allocator, every fourth with a ledger allocator; loads include good EC / OKP / RSA private keys, also flagged ones (non-string alg). Non-trivial = a removal followed by a load or indexed access, or a find among duplicate kids; distinct by hash of the operation list.")
    assumptions = ["find_bykid is never called with NULL (undocumented)", "LSan attributes a leak to the sequence after which it is first seen"]
    cov, mn = P.generic_harness_check(ctx, "C16_keyring", rule, assumptions, exhaustive=True, env_extra=LEAK_ENV,
                                      min_nontrivial={"quick": 5000, "thorough": 100000})
    return P.finish(ctx, "exploration", cov, assumptions, mn)


# ---------------------------------------------------------------- C10
harness_job("C10_builder")
std_replayer("C10", "C10_builder")


@P.check("C10")
def c10(ctx):
    """builder model: stateful op sequences interleaved with generate; tokens decoded by an independent reader"""
    rule = ("rapidcheck: sequences (1-26) of header_set/del, claim_set/del (typed and JSON values, names incl. alg typ iat nbf exp kid), enable_iat, time_offset "
            "(<=0, >0, invalid claim), setkey (none/alg x NULL/private/public/weak key, with and without alg attr), setcb (none, mutating, key-selecting, "
            "public-key-selecting, key+alg-selecting, failing), clock jumps, error_clear, interleaved with generate, on either provider. Oracle: reference model of the "
            "statement: each output is h.p.s, each part strict unpadded base64url, h and p JSON objects json_equal to the model (alg forced, typ default on signed tokens only, "
            "iat/nbf/exp = clock+offset overriding builder claims, callback edits in that token only), s empty iff alg none else valid under the configured key by an "
            "independent verifier; generate fails exactly where the statement says (public key, failing callback, pair outside the table, unusable key); builder state "
            "unchanged by generating; return codes of configuration calls. enable_iat arguments 0 and 1, 2, -1, 255, 256, 7, 65536, INT_MIN; second value table with 17-digit reals, DBL_MAX, 5e-324, 2^53+1, deep nesting; callbacks registered without a context; a callback that takes key and algorithm away; moving-clock part: iat, nbf - offset, exp - offset of one token are one instant within the call. Non-trivial = sequence with >=2 generates and an overriding claim, a user alg/typ header, a mutating "
            "callback or an offset change between generates; distinct by hash of the operation list.")
    assumptions = ["controlled clock via link-time wrap of time()", "reference verifier on raw OpenSSL EVP", "values are valid UTF-8; names non-empty (C15 covers the rest)"]
    cov, mn = P.generic_harness_check(ctx, "C10_builder", rule, assumptions, min_nontrivial={"quick": 3000, "thorough": 50000})
    return P.finish(ctx, "exploration", cov, assumptions, mn)


# ---------------------------------------------------------------- C13
harness_job("C13_history")
std_replayer("C13", "C13_history")


@P.check("C13")
def c13(ctx):
    """no hidden state: reused checker/builder vs fresh identically configured object after every verify/generate"""
    rule = ("rapidcheck: histories (1-40 steps) on one long-lived checker (setkey, claim_set/del, time_leeway, setcb none/key-selecting/failing/token-mutating, clock, error_clear, "
            "verify of a token from a classified pool: valid HS256/ES256/none, bad signature, expired, nbf in future, wrong iss, malformed at each parse stage, missing/unknown alg, "
            "none with signature, NULL, empty) or one long-lived builder (the C10 operation alphabet incl. failing callbacks, public/weak/mismatched keys). After every "
            "verify/generate a fresh object is built, every configuration call made so far is replayed on it, and the same call is made at the same clock: return value and "
            "error flag must agree; tokens byte-equal for deterministic algorithms, header.payload equal otherwise. Message text is compared and histogrammed, not asserted. "
            "Checker callbacks also leave the config in refused states (alg without key, alg != key alg, key without alg) and may hand out another key of the same kind and algorithm the next time; callbacks may be registered without a context; a builder callback may take key and algorithm away; claim_set calls with a non-UTF-8 value (refused); callbacks may hand out a key with an unknown alg attribute. Every case starts with a non-empty OpenSSL error queue and errno set. Non-trivial = sequence containing a call whose predecessor on the same object ended in the other verdict class without error_clear in between; distinct by hash of the operation list.")
    assumptions = ["the harness callback's own counter is copied to the fresh object (it is not library state)", "provider is not switched inside a sequence"]
    cov, mn = P.generic_harness_check(ctx, "C13_history", rule, assumptions, min_nontrivial={"quick": 2000, "thorough": 20000})
    return P.finish(ctx, "exploration", cov, assumptions, mn)


# ---------------------------------------------------------------- C19
harness_job("C19_callback")
std_replayer("C19", "C19_callback")


@P.check("C19")
def c19(ctx):
    """callback cannot bend the verdict: metamorphic (with vs without token-mutating callback), failing callbacks, callback-selected key/alg vs setkey"""
    rule = ("rapidcheck: callback programs of 0-8 operations on the handed jwt_t (claim/header set-with-replace, delete, delete-all, whole-object replace; targets exp nbf iss sub aud "
            "alg typ and another name; values that would pass or fail each check) returning 0 with config untouched, x checker configuration (no key / HS256 / ES256 public key, "
            "iss/sub/aud set or not, exp/nbf leeway 0/50/off) x token whose exp, nbf, iss, sub, aud each are absent / passing / failing / wrong-typed and whose signature is valid or "
            "not, x provider, at a fixed clock. Oracle: verdict with the callback == verdict of an identical checker without callback; a callback returning non-zero always fails "
            "with the error flag set. Plus the exhaustive grid (provider x key table x 10 algs x 3 token kinds): a (key, alg) selected by a callback verifies iff the same pair given "
            "to setkey is admitted and verifies. Programs contain typed reads; checkers optionally reused after a failure; select grid with ten keys carrying use / key_ops, modes 'callback sets alg only' / 'key only'; a third checker gets an idle callback with a context first and the case's callback over it (same verdict and run count required). Non-trivial = the program edits a claim/header an enabled check reads (or wipes/replaces the object); distinct by hash of the whole case.")
    assumptions = ["the callback leaves jwt_config_t untouched in the metamorphic part", "fixed clock; reference signer builds the tokens"]
    cov, mn = P.generic_harness_check(ctx, "C19_callback", rule, assumptions, min_nontrivial={"quick": 5000, "thorough": 50000})
    return P.finish(ctx, "exploration", cov, assumptions, mn)


# ---------------------------------------------------------------- C14
harness_job("C14_errors")
std_replayer("C14", "C14_errors")


@P.check("C14")
def c14(ctx):
    """error contract: every failure cause class on fresh and reused objects + random histories"""
    rule = ("enumerated: provider x 12 checker configurations (no key / oct / EC / OKP keys, explicit or key alg, failing / selecting / mutating callbacks, iss, leeways) x "
            "~45 classified tokens (each malformed-token stage, missing / non-string / unknown / case-variant alg, none with signature, payload not JSON / array, claim "
            "failures and wrong claim types, signature failures per algorithm, foreign key, NULL, empty) x object state (fresh, reused after a success, reused after an "
            "uncleared failure); 13 builder failure causes (short key, public key, failing / mismatching callback, family and size mismatch, unknown key alg, ...) x 3 object "
            "states x provider; every single-member defect (absent / null / number / bool / array / object / empty / non-base64 / too short) of every member of RSA, EC, OKP, oct "
            "JWKs (public and private), bare and inside a set; non-JSON documents; then rapidcheck histories over the C13 checker alphabet and the C10 builder alphabet. "
            "Oracle: verify != 0 <=> error flag, failure has a message, success leaves flag clear and message empty; generate NULL <=> flag set with message; bad keyring items "
            "and errored sets carry a message; setters return value.error. Part E: out-of-domain set/get/del inputs compare the returned code with value.error. 23 checker configurations incl. callbacks that return 0 with a refused config and keys that are items flagged with a load error or carry an unknown alg attribute. Part A2: the clock moves (every time() reading advances it by 1/2/5 s) while tokens that expire or become valid within +-8 s are verified. Non-trivial = failing call; distinct by (cause class, configuration, object state) / hash of history.")
    assumptions = ["strings are valid UTF-8; errored jwk items are not passed to setkey"]
    cov, mn = P.generic_harness_check(ctx, "C14_errors", rule, assumptions, min_nontrivial={"quick": 5000, "thorough": 50000})
    cov["cause_classes"] = sorted(k[6:] for k in cov["classes"] if k.startswith("cause:"))
    cov["n_cause_classes"] = len(cov["cause_classes"])
    cov["classes"] = {k: v for k, v in cov["classes"].items() if not k.startswith("cause:")}
    return P.finish(ctx, "exploration", cov, assumptions, mn)


# ---------------------------------------------------------------- C05
harness_job("C05_roundtrip")
std_replayer("C05", "C05_roundtrip")


@P.check("C05")
def c05(ctx):
    """round trip: generate -> verify under every (signer, verifier) provider pair, content read back in the checker callback"""
    rule = ("rapidcheck: (private key of every type/size [thorough: + freshly generated keys] x every admissible alg x alg given explicitly or as key attribute) x signing provider x "
            "verifying provider x recursive JSON trees for headers and claims (depth <=6, non-BMP and escaped characters, integers to +-2^63, reals, empty containers, strings to "
            "8 KiB, names colliding with alg/typ/iat/nbf/exp) set through whole-object JSON or typed setters x iat/nbf/exp options x clock. Oracle: generate != NULL; the "
            "independent verifier accepts (fixed-width r||s, PSS); segments are canonical unpadded base64url; a checker with the public (or same symmetric) key returns 0 under the "
            "verifying provider; header and claims read in its callback are json_equal to builder content + {alg, typ default, iat, nbf, exp}. A volume phase signs hundreds of "
            "ES256/ES384/ES512 tokens per provider to hit short r or s. Modes: typed / whole-object sets; checker reused after failures; key supplied by callback instead of setkey (builder and checker); the reading callback first probes present and absent members with every typed getter; builder and checker first keyed with another key + explicit algorithm, then re-keyed (setkey over setkey); builders that have already produced a token with other time settings. All jwt_value_t are dirty (0xA5) before the macro-equivalent assignments. Non-trivial = ECDSA signature with a leading zero byte in r or s, tree depth >=3 / non-ASCII / |int|>2^53, "
            "or a cross-provider pair; distinct by hash of the token.")
    assumptions = ["ES256K / secp256k1 only openssl->openssl (GnuTLS lacks it)", "user-supplied exp/nbf claims are not generated (the default checker would enforce them)",
                   "randomized signatures: the replay re-signs up to 20 times"]
    cov, mn = P.generic_harness_check(ctx, "C05_roundtrip", rule, assumptions, min_nontrivial={"quick": 2000, "thorough": 20000})
    return P.finish(ctx, "exploration", cov, assumptions, mn)


# ---------------------------------------------------------------- C08
harness_job("C08_import")
std_replayer("C08", "C08_import")


@P.check("C08")
def c08(ctx):
    """JWK import: generated keys x rendering variations, compared component-wise with the original key"""
    rule = ("rapidcheck: key (fixture RSA 2048/2050/2056/3072/4096, freshly generated P-256/P-384/P-521/secp256k1/Ed25519/Ed448 [thorough: + fresh RSA], oct of 1-512 bytes) x "
            "private/public form x rendering (integers zero-padded by 0-3 bytes, EC coordinates fixed-width or stripped, OKP private with/without x, alg from 20 strings incl. "
            "unknown / lower-case / 'P'-prefixed, kid incl. long and non-ASCII, use in {sig, enc, other, SIG}, key_ops subsets incl. unknown ops and non-strings, non-array) x "
            "foreign members (members of other key types, unknown names with any JSON value) x bare or inside a set. Oracle: item error-free; kty, key_bits, curve, is_private, alg, "
            "kid, use, key_ops equal an independent mapping of what the JWK states; oct bytes == strict decode of k; the item's PEM parsed by OpenSSL has the same "
            "n,e,d,p,q,dp,dq,qi / x,y,d,curve / raw public+private as the original key (and EVP_PKEY_eq when types match); the same JWK without the foreign members imports "
            "identically. Fixtures with one-octet integers (e = 3, 17; d = 5) and e = 257; in a set the key comes after a good and an off-curve EC key; imports start with a non-empty OpenSSL error queue; kids with percent signs. Non-trivial = zero-padded or stripped encodings, foreign members present, or private form; distinct by hash of the JWK text.")
    assumptions = ["own JWK renderer in vkeys.h; OpenSSL parses the PEM and extracts components", "foreign members never name a member that the key's own type uses"]
    cov, mn = P.generic_harness_check(ctx, "C08_import", rule, assumptions, min_nontrivial={"quick": 3000, "thorough": 50000})
    return P.finish(ctx, "exploration", cov, assumptions, mn)


# ---------------------------------------------------------------- C09
harness_job("C09_floor", extra_link="")
std_replayer("C09", "C09_floor", extra_link="")


@P.check("C09")
def c09(ctx):
    """key-strength floor: exhaustive grid over key sizes/curves x algs x generate/verify x provider"""
    rule = ("exhaustive grid: oct keys of every length 1-160 bytes x HS256/384/512; RSA moduli 512, 1024, 1536, 2040, 2047, 2048, 2050, 2056, 3072, 4096 (thorough: + fresh "
            "1024/2047/2048) x RS*/PS*; EC curves P-256, P-384, P-521, secp256k1, secp224r1, brainpoolP256r1, brainpoolP384r1 x ES256/ES256K/ES384/ES512; Ed25519, Ed448 x EdDSA; "
            "cross-family probes; each for jwt_builder_generate and for jwt_checker_verify of a token the reference signer signed validly with that very key; both providers. "
            "Oracle: below the floor => NULL / non-zero with error flag and message; at or above => generate succeeds, the token verifies and the reference verifier accepts "
            "(GnuTLS: asserted for the curves it supports). Every cell also with the key naming the algorithm itself (pinned by key+setkey / key alone) and with an item flagged after loading (alg: 256); oct keys of the sizes asymmetric tests look for. The importer refusing an adequate key (with stale entries in OpenSSL's error queue) is a violation, not a skipped cell. Warm cells: the object has just succeeded with the key under another algorithm of the family (cell's algorithm by setkey or by callback); cells on an object that has just been refused with a weak key (error not cleared). Non-trivial = cell within one step of a threshold (31/32/33, 47/48/49, 63/64/65 bytes; 2040-2056 bits; every EC/OKP cell); "
            "cells are distinct by construction.")
    assumptions = ["the statement constrains EC size only: brainpoolP256r1 may sign ES256 under OpenSSL", "a key the importer refuses counts as refused"]
    cov, mn = P.generic_harness_check(ctx, "C09_floor", rule, assumptions, extra_link="", exhaustive=True, min_nontrivial={"quick": 200, "thorough": 200})
    return P.finish(ctx, "exploration", cov, assumptions, mn)


# ---------------------------------------------------------------- C12
harness_job("C12_providers")
std_replayer("C12", "C12_providers")


@P.check("C12")
def c12(ctx):
    """providers interchangeable: verdict agreement, mutual acceptance, byte-identical deterministic tokens, exact-name switching, cross-provider key use"""
    rule = ("(1) rapidcheck: (key, alg) of the common matrix (all but ES256K/secp256k1) x checker config x base token made by the OpenSSL builder, the GnuTLS builder or the "
            "reference signer x 0-2 mutation steps from the 22 operators of C01; tokens are classified RFC-valid / not validly signed / gray zone (valid but lenient base64, PSS "
            "salt != hash length, other alg of the key) - gray-zone tokens are counted and excluded as the statement does; oracle: both providers give the same verdict, RFC-valid "
            "tokens are accepted. (2,3,5) exhaustive grid (key, alg) x loading provider x signing provider x verifying provider: key loaded under one provider signs under another, "
            "verifies under the third and is freed under the other; HS*/RS*/EdDSA tokens from identical builder state and clock are byte-identical across providers. "
            "(4) jwt_set_crypto_ops over exact names, case variants, prefixes, extensions, whitespace, empty, other providers' names and 60 seeded edits; jwt_set_crypto_ops_t over "
            "ids -5..10 and random; JWT_CRYPTO values in a child process: switch iff exact name/id of a compiled provider, otherwise non-zero and provider unchanged / first provider. Key rotation: with a recycling allocator key A is loaded, used under both providers and freed, key B lands at its address - both providers reject A's and accept B's tokens. "
            "Non-trivial = verdict case that reaches the provider verify routine under both providers, cross-provider cell, near-miss name/id; distinct by hash / by construction.")
    assumptions = ["reference verifier decides RFC validity", "ES256K / secp256k1 are outside the common matrix",
                   "known dependency finding (nettle ignores the last Ed448 signature byte) has its own signature"]
    cov, mn = P.generic_harness_check(ctx, "C12_providers", rule, assumptions, min_nontrivial={"quick": 3000, "thorough": 50000})
    return P.finish(ctx, "exploration", cov, assumptions, mn)


# ---------------------------------------------------------------- C17
harness_job("C17_oom", extra_link="")
std_replayer("C17", "C17_oom", extra_link="")


@P.check("C17")
def c17(ctx):
    """allocation failure: fork-per-fault enumeration of every allocation index of every scenario"""
    rule = ("fault enumeration: a catalogue of scenarios (scripts of public calls: load JWK/JWKS of every key type through jwks_create / load_strn / load_fromfp, onto empty "
            "and existing sets; builder new / typed and JSON set / merge / get / del / time offsets / setkey / mutating callback / generate twice for none, HS*, RS*, PS*, ES*, "
            "EdDSA; checker new / setkey / claims / leeway / reading callback / verify of a good token and of tokens bad at each layer incl. an empty-key HS256 forgery / good token "
            "afterwards; keyring find / error_any / free_bad / free / free_all; both providers) is run once with a counting allocator installed through jwt_set_alloc (N allocations, "
            "baseline transcript of every return value, token and verdict), then for EVERY k in 1..N a forked child runs it with exactly the k-th request returning NULL. "
            "Oracle (stop mode): the child's transcript equals the baseline, or is a proper prefix followed by one documented failure value (NULL / non-zero / set or item error) "
            "after which only frees run; never a crash or sanitizer report, never verdict 0 where the baseline rejected, never a token whose header.payload (whole token for "
            "deterministic algs) differs or whose signature the reference verifier rejects. Also: seed-dependent random builder histories (C10 alphabet), continue mode, checker scenarios with a claim-editing callback and tokens failing on claims only, tracking allocator (foreign frees). Non-trivial: every fault index lands inside a library call; distinct = distinct "
            "(scenario family, libjwt/jansson call chain of the failing request).")
    assumptions = ["single fault per run, as the statement says", "allocations inside OpenSSL/GnuTLS are outside jwt_set_alloc and are not failed",
                   "leaks are not part of the statement (LSan off)", "the failing request's call chain (backtrace + sanitizer symbolizer) is the root-cause key of a violation"]
    cov, mn = P.generic_harness_check(ctx, "C17_oom", rule, assumptions, extra_link="", exhaustive=True, min_nontrivial={"quick": 40, "thorough": 60})
    return P.finish(ctx, "fault_enumeration", cov, assumptions, mn)


# ---------------------------------------------------------------- C18
BUILD_JOBS.append(lambda: ck.build_harness("C18_threads", "tsan", extra_link=""))
harness_job("C18_threads", extra_link="")


def tsan_reports(wd):
    """parse TSAN log files -> list of (kind, libjwt frames, text)"""
    import re
    reps = []
    for f in glob.glob(os.path.join(wd, "tsan.*")):
        txt = open(f, errors="replace").read()
        for blk in txt.split("=================="):
            m = re.search(r"WARNING: ThreadSanitizer: ([^\n(]+)", blk)
            if not m:
                continue
            frames = []
            for fm in re.finditer(r"#\d+ (\S+) (\S+)", blk):
                fn, loc = fm.group(1), fm.group(2)
                if "/libjwt/" in loc and fn not in frames:
                    frames.append(fn)
            reps.append((m.group(1).strip().replace(" ", "-"), frames, blk[:3000]))
    return reps


@P.check("C18")
def c18(ctx):
    """concurrency: TSan + ASan stress with seeded skew; per-thread transcripts vs sequential"""
    rule = ("schedule sampling: rounds of 2/4/8/16 threads, each with its own builder and checker, sharing one read-only keyring with keys of every type (oct, RSA, RSA-PSS use, "
            "P-256/384/521, secp256k1 under OpenSSL, Ed25519, Ed448), each running a seeded script of generate / verify-valid / verify-corrupted / verify-expired over those keys "
            "with seeded start skew and inter-call spin, under the fixed fake clock; one provider per process (even workers OpenSSL, odd workers GnuTLS), never switched. The same "
            "workload runs under ThreadSanitizer and under ASan/UBSan. Oracle: no ThreadSanitizer report whose stack contains a libjwt frame (reports without one are counted "
            "separately), and every thread's transcript (verdicts and error flags; tokens for HS*/RS*/EdDSA; header.payload + reference-verifier validity for ECDSA/PSS) equals the "
            "transcript of the same script run sequentially beforehand. Round 0 of every worker is cold (first library calls of the process are concurrent); every second round all threads hammer one key; half of the calls look keys up by kid in the shared keyring; ES256K key also under GnuTLS (calls fail identically). Small-stack part: 3 threads with 64 KiB stacks verify and generate tokens with segments of 4k..64k(+-) characters (thorough: up to 1M) for every key; results equal the main thread's. Builders and checkers of half of the threads (all, every third round) have a callback installed. Non-trivial = round in which calls of two threads overlapped on the same key (harness-owned atomic "
            "counters, not used in any verdict); distinct by (seed, worker, round, provider).")
    assumptions = ["TSan's happens-before detection reports a race whenever both accesses occur in a run; races only reachable through paths the scripts do not take are missed",
                   "uninstrumented OpenSSL/GnuTLS/jansson internals are invisible to TSan", "schedules are sampled, not enumerated",
                   "small-stack part: a thread stack of 64 KiB is taken to be a legal environment; measured on this image, the unchanged library completes every call of that part with 24 KiB under both sanitizer builds (VERIF_C18_STACK overrides the size)"]
    t_exe = ck.build_harness("C18_threads", "tsan", extra_link="")
    a_exe = ck.build_harness("C18_threads", "asan", extra_link="")
    os.makedirs(P.OUT, exist_ok=True)
    import tempfile
    logd = tempfile.mkdtemp(prefix="C18-tsanlog-", dir=P.OUT)
    tenv = {"TSAN_OPTIONS": f"log_path={logd}/tsan:halt_on_error=0:exitcode=0:report_signal_unsafe=0:history_size=4"}
    nw_t = max(2, ck.NCPU // 2 if ctx.tier == "quick" else ck.NCPU)
    res_t, wd_t = ck.run_workers(t_exe, ctx.pid, ctx.tier, ctx.seed, nw_t, env_extra=tenv, known=ctx.known, timeout=3000)
    res_a, wd_a = ck.run_workers(a_exe, ctx.pid, ctx.tier, ctx.seed + 7, max(2, ck.NCPU // 2), known=ctx.known, timeout=3000)
    P.collect_harness(ctx, res_t, t_exe, env_extra=tenv)
    P.collect_harness(ctx, res_a, a_exe)
    reps = tsan_reports(logd)
    nolib = 0
    for kind, frames, txt in reps:
        if not frames:
            nolib += 1
            continue
        sig = f"C18:tsan:{kind}:{'<'.join(frames[:3])}"
        rp = {"tsan_report": txt, "how_to_replay": "re-run ./check.py C18 (schedule dependent); the report names both accesses"}
        P.handle_violation(ctx, sig, "ThreadSanitizer report with libjwt frames: " + kind, rp, None)
    m = ck.merge_stats(res_t + res_a)
    dn = len(m["fps"]) + m["distinct_by_construction"]
    cov = {"evaluations": m["evaluations"], "distinct_nontrivial": dn, "rule": rule, "samples": m["samples"][:8], "classes": m["classes"],
           "tsan_reports_with_libjwt_frames": sum(1 for r in reps if r[1]), "tsan_reports_without_libjwt_frames": nolib,
           "workers_tsan": nw_t, "workers_asan": max(2, ck.NCPU // 2)}
    cov.update(m["extra"])
    for d in (wd_t, wd_a, logd):
        if not ctx.violations:
            shutil.rmtree(d, ignore_errors=True)
    return P.finish(ctx, "exploration", cov, assumptions, 10)


def c18_replay(ctx, path):
    # a saved transcript mismatch names (seed, worker, round); schedule-dependent: re-run that worker's rounds under TSan
    return False
REPLAYERS["C18"] = c18_replay


# ---------------------------------------------------------------- C20
harness_job("C20_helper", extra_link="")
BUILD_JOBS.append(lambda: ck.build_lib("asan", tools=True))


def c20_wrapper():
    bdir = ck.build_lib("asan", tools=True)
    helper = ck.build_harness("C20_helper", "asan", extra_link="")
    w = os.path.join(ck.CACHE, "bin", "c20-" + os.path.basename(bdir) + "-" + os.path.basename(helper)[-16:] + ".sh")
    os.makedirs(os.path.dirname(w), exist_ok=True)
    with open(w + ".tmp", "w") as f:
        f.write(f"#!/bin/sh\nexec python3-vt {VERIF}/cli/c20_cli.py --tools {bdir}/tools --helper {helper} \"$@\"\n")
    os.chmod(w + ".tmp", 0o755)
    os.rename(w + ".tmp", w)
    return w


REPLAYERS["C20"] = lambda ctx, path: P.harness_replay_fn(c20_wrapper(), "C20")(path)


@P.check("C20")
def c20(ctx):
    """command-line tools: Hypothesis-driven subprocess tests of the ASan-built tools"""
    rule = ("Hypothesis (seeded from VERIF_SEED, database off) drives the tools built from /repo with ASan/UBSan: (1) jwt-verify with token lists whose length and number of failing "
            "tokens are drawn from {0..3, 20, 254-257, 300, 511-513, 768, 1024, 1100} and [0,1100], as arguments and on stdin, with and without -q, plus the fixed boundary lists "
            "255/256/257/512 failing tokens: exit status 0 iff every token verified; (2) jwt-generate with a key file (oct, EC, RSA, Ed25519 [thorough: + HS512, P-384, P-521, Ed448, "
            "secp256k1, PS256], with and without alg attribute) and every option of the usage text in each getopt spelling (-a X, -aX, --algorithm=X, --algorithm X; likewise "
            "-k -c -j; -n -q -v in short and long form) prints a token that the reference verifier accepts and that jwt-verify accepts with the same key file and option "
            "spellings, under JWT_CRYPTO=openssl and gnutls; (3) key2jwk over 1-8 freshly generated keys per invocation (RSA, RSA-PSS, P-256/384/521, secp256k1, Ed25519, Ed448, "
            "private and public PEM, oct files of 32-512 bytes; EC keys optionally forced to have a leading-zero coordinate): output parses, each JWK denotes the same key with "
            "fixed-width EC x, y, d (own decoder), jwk2key writes back files with the identical key; -h/--help/-l/--list exit 0. Any sanitizer report in a tool run is a violation. "
            "Tools run with RLIMIT_NOFILE 64; verify lists also with -v, -v -p cat and the long spellings (100/300 tokens); valid tokens of 8188-8194 and 16381-16385 characters on stdin; jwt-generate with up to three typed claims (exp in 2100, 2^31, 2^53+1, LONG_MAX, negative, hex); keys in other file encodings (compressed/hybrid EC point, SEC1/PKCS#1), oct keys ending in newline/CR/NUL/space, 255-257 keys per run; RSA-PSS stays RSA-PSS; lists of three with exactly one failing token of each of ten kinds (damaged, cut, followed by CR / CR+text / tab / space) at each position, as arguments and on stdin; last-line lists; key files with two keys. Non-trivial = list with failing tokens (>=255 counted separately), short-spelled options with arguments, EC keys with a leading-zero coordinate, every conversion; "
            "distinct by hash of the case.")
    assumptions = ["tools run with detect_leaks=0 (they exit without freeing by design; the exit status is the oracle)", "C20_helper (OpenSSL + vlib) generates keys and judges key equality"]
    w = c20_wrapper()
    nrep = P.run_replay_tier(ctx, w)
    workers = ck.NCPU
    results, wd = ck.run_workers(w, ctx.pid, ctx.tier, ctx.seed, workers, known=ctx.known, timeout=3000)
    P.collect_harness(ctx, results, w)
    for r in results:
        if r["rc"] not in (0, 3) and not r["timed_out"]:
            log("C20 worker failed rc=", r["rc"], r["stderr"][-1500:])
            ctx.broken = True
    m = ck.merge_stats(results)
    for k, v in m["known_hits"].items():
        e = ck.known_match(ctx.known, ctx.pid, k)
        if e and k not in ctx.printed_known:
            ctx.printed_known.add(k); ctx.known_hits[k] = v
            print(f"KNOWN-FINDING: property={ctx.pid} {e['what']}", flush=True)
    cov = {"evaluations": m["evaluations"], "distinct_nontrivial": len(m["fps"]), "rule": rule, "samples": m["samples"][:10], "classes": m["classes"], "workers": workers,
           "replay_tier_inputs": nrep}
    cov.update(m["extra"])
    if not ctx.violations and not getattr(ctx, "broken", False):
        shutil.rmtree(wd, ignore_errors=True)
    return P.finish(ctx, "exploration", cov, assumptions, 20)
log = ck.log


# replayers for the fuzz-based properties: the artifact is raw target input; it must pass under every target of the property
def _fuzz_replayer(pid, targets):
    def fn(ctx, path):
        bad = False
        for t in targets:
            exe = ck.build_harness(t, "fuzz", src=os.path.join(VERIF, "fuzz", t + ".cc"))
            base = os.path.basename(os.path.dirname(path))
            if base.startswith("fz_") and base != t:
                continue   # saved under replays/<pid>/<target>/: only that target understands the layout
            if P.fuzz_replay_fn(exe)(path):
                bad = True
        return bad
    REPLAYERS[pid] = fn
_fuzz_replayer("C06", ["fz_token_raw", "fz_token_struct"])
_fuzz_replayer("C07", ["fz_jwks_raw", "fz_jwks_shape"])
