// vops.h - builder operation alphabet, executor and reference model (shared by C10, C13, C14).
#pragma once
#include <climits>
#include "vlib.h"
#include "vkeys.h"
#include <memory>

namespace vo {
using namespace v;
typedef std::map<std::string, J> Map;
inline J snapshot(const Map &m) { json_t *o = json_object(); for (auto &kv : m) json_object_set(o, kv.first.c_str(), kv.second.p); return J(o); }

// ------------------------------------------------------------------ key table
struct KeyEnt { const char *label; const KeySpec *k; std::string attr; bool priv; std::unique_ptr<LKey> lk; jwt_alg_t attr_alg; };
inline std::vector<KeyEnt> &keytab() { static std::vector<KeyEnt> *t = new std::vector<KeyEnt>; return *t; }
inline Pool &pool() { static Pool *p = new Pool(standard_pool()); return *p; }
inline void add_key(const char *label, const KeySpec *k, const char *attr, bool priv) {
  KeyEnt e; e.label = label; e.k = k; e.attr = attr ? attr : ""; e.priv = priv; JwkOpts o; o.alg = e.attr; o.priv = priv || k->kind == K_OCT;
  e.lk = std::make_unique<LKey>(jwk_json(*k, o)); if (!e.lk->ok()) { fprintf(stderr, "key import failed %s\n", label); exit(2); }
  e.attr_alg = attr ? jwt_str_alg(attr) : JWT_ALG_NONE; keytab().push_back(std::move(e));
}
inline void init_keys(bool thorough) {
  if (!keytab().empty()) return;
  Pool &p = pool(); static KeySpec weak = oct_key("oct16", 16);
  add_key("oct64", &p.get("oct64"), nullptr, true);            // 0
  add_key("oct64/HS256", &p.get("oct64"), "HS256", true);      // 1
  add_key("ec_p256", &p.get("ec_p256"), nullptr, true);        // 2
  add_key("ec_p256/ES256", &p.get("ec_p256"), "ES256", true);  // 3
  add_key("ec_p256-pub/ES256", &p.get("ec_p256"), "ES256", false);  // 4
  add_key("oct16-weak", &weak, nullptr, true);                 // 5
  add_key("ed25519/EdDSA", &p.get("ed25519"), "EdDSA", true);  // 6
  add_key("oct64/HS512", &p.get("oct64"), "HS512", true);      // 7
  add_key("ec_k256/ES256K", &p.get("ec_k256"), "ES256K", true);  // 8 (GnuTLS cannot use it: a failure cause with its own message)
  add_key("rsa_2048/PS384", &p.get("rsa_2048"), "PS384", true);  // 9
  add_key("oct48/HS384", &p.get("oct48"), "HS384", true);        // 10
  if (thorough) {
    add_key("rsa_2048/RS256", &p.get("rsa_2048"), "RS256", true); add_key("rsa_2048", &p.get("rsa_2048"), nullptr, true);
    add_key("ec_p384/ES384", &p.get("ec_p384"), "ES384", true); add_key("ec_p521", &p.get("ec_p521"), nullptr, true); add_key("ed448/EdDSA", &p.get("ed448"), "EdDSA", true);
    add_key("rsa_2048/PS256", &p.get("rsa_2048"), "PS256", true);
  }
}
static const jwt_alg_t ALGCH[] = {JWT_ALG_NONE, JWT_ALG_HS256, JWT_ALG_ES256, JWT_ALG_HS512, JWT_ALG_EDDSA, JWT_ALG_RS256, JWT_ALG_ES384, JWT_ALG_ES512, JWT_ALG_PS256, JWT_ALG_HS384, JWT_ALG_ES256K, JWT_ALG_PS384, JWT_ALG_RS512};
static const int NALGCH = 13;

// ------------------------------------------------------------------ builder ops
enum { B_HSET, B_HDEL, B_CSET, B_CDEL, B_IAT, B_OFFSET, B_SETKEY, B_SETCB, B_CLOCK, B_GEN, B_ERRCLR, B_N };
static const char *BN[] = {"header_set", "header_del", "claim_set", "claim_del", "enable_iat", "time_offset", "setkey", "setcb", "clock", "generate", "error_clear"};
struct BOp { int k = 0, a = 0, b = 0, c = 0; };
static const char *HNAMES[] = {"a", "b", "alg", "typ", "x", "kid", "iat"};
static const char *CNAMES[] = {"a", "b", "iat", "nbf", "exp", "sub", "alg", "cb"};
static const int NHN = 7, NCN = 8;
// value table: (type, text)
struct Val { int vt; long i; const char *s; };
static const Val VALS[] = {{1, 0, 0}, {1, 7, 0}, {1, -1, 0}, {1, 1700000000, 0}, {2, 0, "JWT"}, {2, 0, "at+jwt"}, {2, 0, ""}, {2, 0, "h\xc3\xa9"}, {2, 0, "none"}, {3, 1, 0}, {3, 0, 0}, {4, 0, "{\"n\":[1,2,{\"d\":null}]}"}, {4, 0, "[]"}, {4, 0, "[\"x\",1.5]"}, {1, 4102444800L, 0}, {2, 0, "HS256"}};
static const int NVALS = 16;
// second table, selected by bit 1 of the op's third argument (so the first table keeps its meaning in saved inputs): reals that need
// 16-17 significant digits, the largest double, integers beyond 2^53, members of every JSON type inside objects
static const Val VALS2[] = {{4, 0, "{\"r\":0.30000000000000004,\"p\":3.141592653589793}"}, {4, 0, "[1.7976931348623157e308,5e-324,-0.0]"}, {4, 0, "{\"t\":1736432434.1234567,\"big\":9007199254740993}"}, {4, 0, "{\"n\":null,\"b\":false,\"o\":{},\"a\":[]}"},
                            {1, 9007199254740993L, 0}, {1, LONG_MIN, 0}, {2, 0, "\xf0\x9f\x94\x91"}, {4, 0, "[[[[[[[[\"deep\"]]]]]]]]"}};
static const int NVALS2 = 8;
struct BOp;
inline const Val &val_of(int b, int c) { return (c & 2) ? VALS2[b % NVALS2] : VALS[b % NVALS]; }
// enable_iat argument: "0 to disable, any other value to enable" (jwt.h); odd op arguments enable, with every kind of truthy value
static const int IAT_ON[] = {1, 2, -1, 256, 7, INT_MIN, 1 << 16, 255};
inline int iat_arg(int a) { return (a & 1) ? IAT_ON[(a >> 1) % 8] : 0; }
enum { CB_NONE, CB_MUTATE, CB_SELECT_KEY, CB_SELECT_PUB, CB_FAIL, CB_SELECT_KEY_ALG, CB_N, CB_UNSIGN = 100 };   // CB_UNSIGN (outside the modulo range, see cb_kind_of): the callback takes key and algorithm away - this token is unsigned
static const char *CBN[] = {"none", "mutating", "selects-key", "selects-public-key", "fails", "selects-key+alg"};
static const long OFFS[] = {0, -1, -3600, 1, 60, 3600, 1L << 31};
static const long long CLK[] = {0, 1, 1700000000, 1893456000, 1LL << 33};

inline J val_json_model(const Val &v) { switch (v.vt) { case 1: return J(json_integer(v.i)); case 2: return J(json_string(v.s)); case 3: return J(json_boolean(v.i)); default: return J::parse(v.s); } }

struct BModel {
  Map headers, claims; bool iat = true; long nbf_off = 0, exp_off = 0; bool nbf_on = false, exp_on = false;
  int alg = JWT_ALG_NONE, key = -1; int cb = CB_NONE; long long now = 1700000000; int gen_count = 0;
};

struct CbCtx { int kind; int count; };
inline int builder_cb_body(jwt_t *jwt, jwt_config_t *c, CbCtx *x);
inline int builder_cb(jwt_t *jwt, jwt_config_t *c) { return builder_cb_body(jwt, c, (CbCtx *)c->ctx); }
// registered WITHOUT a context (setcb(b, cb, NULL)): state in a global; only for the kinds that keep no per-builder count
inline CbCtx &noctx_bstate() { static CbCtx v{0, 0}; return v; }
inline int builder_cb_noctx(jwt_t *jwt, jwt_config_t *c) { if (c->ctx) return 1; return builder_cb_body(jwt, c, &noctx_bstate()); }
inline bool &allow_noctx() { static bool b = false; return b; }   // (also enables CB_UNSIGN)
inline int cb_kind_of(int a, int b) { int kind = a % CB_N; if (allow_noctx() && kind == CB_FAIL && (b % 4) == 3) kind = CB_UNSIGN; return kind; }
inline int builder_cb_body(jwt_t *jwt, jwt_config_t *c, CbCtx *x) {
  x->count++;
  switch (x->kind) {
  case CB_MUTATE: {   // a well-behaved application: a set that reports failure (only possible under fault injection, C17) fails the callback
    jwt_value_t v = val_int("cb", x->count, 1); if (jwt_claim_set(jwt, &v)) return 1; jwt_header_del(jwt, "x"); v = val_str("cbh", "v", 1); if (jwt_header_set(jwt, &v)) return 1; jwt_claim_del(jwt, "sub"); return 0; }
  case CB_SELECT_KEY: c->key = keytab()[3].lk->item; return 0;
  case CB_SELECT_PUB: c->key = keytab()[4].lk->item; return 0;
  case CB_SELECT_KEY_ALG: c->key = keytab()[0].lk->item; c->alg = JWT_ALG_HS384; return 0;
  case CB_FAIL: return 1;
  case CB_UNSIGN: c->key = nullptr; c->alg = JWT_ALG_NONE; return 0;
  }
  return 0;
}

struct BExec {  // a live builder + callback context
  jwt_builder_t *b; CbCtx cx{CB_NONE, 0};
  BExec() { b = jwt_builder_new(); }
  ~BExec() { jwt_builder_free(b); }
};
struct BResult { int code = 0; bool is_gen = false; bool null = false; std::string token; int err = 0; std::string msg; };

// setkey admission per the documented table + builder's private-key rule
inline bool admits(int alg, int key) {
  if (key < 0) return alg == JWT_ALG_NONE;
  const KeyEnt &e = keytab()[key];
  if (!e.priv && e.k->kind != K_OCT) return false;
  if (e.attr_alg == JWT_ALG_NONE) return alg != JWT_ALG_NONE;
  return alg == JWT_ALG_NONE || alg == (int)e.attr_alg;
}

inline BResult apply(BExec &x, const BOp &o) {
  BResult r; jwt_builder_t *b = x.b;
  switch (o.k % B_N) {
  case B_HSET: case B_CSET: {
    bool h = (o.k % B_N) == B_HSET; const char *n = h ? HNAMES[o.a % NHN] : CNAMES[o.a % NCN]; const Val &v = val_of(o.b, o.c); jwt_value_t jv;
    switch (v.vt) { case 1: jv = val_int(n, v.i, o.c & 1); break; case 2: jv = val_str(n, v.s, o.c & 1); break; case 3: jv = val_bool(n, (int)v.i, o.c & 1); break; default: jv = val_json(n, v.s, o.c & 1); }
    r.code = h ? jwt_builder_header_set(b, &jv) : jwt_builder_claim_set(b, &jv); if ((int)jv.error != r.code) r.code = -99; break; }
  case B_HDEL: r.code = jwt_builder_header_del(b, o.a % 9 == 8 ? nullptr : HNAMES[o.a % NHN]); break;
  case B_CDEL: r.code = jwt_builder_claim_del(b, o.a % 10 == 9 ? nullptr : CNAMES[o.a % NCN]); break;
  case B_IAT: r.code = jwt_builder_enable_iat(b, iat_arg(o.a)); break;
  case B_OFFSET: r.code = jwt_builder_time_offset(b, (o.a % 3 == 0) ? JWT_CLAIM_EXP : (o.a % 3 == 1) ? JWT_CLAIM_NBF : JWT_CLAIM_ISS, (time_t)OFFS[o.b % 7]); break;
  case B_SETKEY: { int key = (o.b % ((int)keytab().size() + 1)) - 1; r.code = jwt_builder_setkey(b, ALGCH[o.a % NALGCH], key < 0 ? nullptr : keytab()[key].lk->item) ? 1 : 0; break; }
  case B_SETCB: { int kind = cb_kind_of(o.a, o.b); x.cx.kind = kind;
    if (allow_noctx() && kind != CB_NONE && kind != CB_MUTATE && (o.b % 5) == 4) { noctx_bstate().kind = kind; r.code = jwt_builder_setcb(b, builder_cb_noctx, nullptr); }
    else r.code = jwt_builder_setcb(b, kind == CB_NONE ? nullptr : builder_cb, kind == CB_NONE ? nullptr : &x.cx);
    break; }
  case B_CLOCK: set_now((time_t)CLK[o.a % 5]); break;
  case B_ERRCLR: jwt_builder_error_clear(b); break;
  case B_GEN: { r.is_gen = true; char *t = jwt_builder_generate(b); r.null = !t; if (t) { r.token = t; free(t); } r.err = jwt_builder_error(b); r.msg = jwt_builder_error_msg(b) ? jwt_builder_error_msg(b) : ""; break; }
  }
  return r;
}

// expected result of a generate on model m (before the callback counter is bumped)
struct GenExpect { bool fail = false; std::string why; J header, payload; jwt_alg_t alg = JWT_ALG_NONE; int key = -1; };
inline GenExpect expect_generate(const BModel &m, int cb_count_next) {
  GenExpect e; Map h = m.headers, c = m.claims;
  if (m.iat) c["iat"] = J(json_integer(m.now));
  if (m.nbf_on) c["nbf"] = J(json_integer(m.now + m.nbf_off));
  if (m.exp_on) c["exp"] = J(json_integer(m.now + m.exp_off));
  int alg = m.alg, key = m.key;
  if (alg == JWT_ALG_NONE && key >= 0) alg = keytab()[key].attr_alg;
  switch (m.cb) {
  case CB_MUTATE: c["cb"] = J(json_integer(cb_count_next)); h.erase("x"); h["cbh"] = J(json_string("v")); c.erase("sub"); break;
  case CB_SELECT_KEY: key = 3; break;
  case CB_SELECT_PUB: key = 4; break;
  case CB_SELECT_KEY_ALG: key = 0; alg = JWT_ALG_HS384; break;
  case CB_FAIL: e.fail = true; e.why = "callback-error"; return e;
  case CB_UNSIGN: key = -1; alg = JWT_ALG_NONE; break;
  }
  if (!admits(alg, key)) { e.fail = true; e.why = "not-admitted"; return e; }
  if (alg == JWT_ALG_NONE && key >= 0) alg = keytab()[key].attr_alg;
  if (key >= 0 && (alg <= JWT_ALG_NONE || alg >= JWT_ALG_INVAL || !strength_ok(*keytab()[key].k, (jwt_alg_t)alg))) { e.fail = true; e.why = "unusable-key-for-alg"; return e; }
  if (alg != JWT_ALG_NONE && !h.count("typ")) h["typ"] = J(json_string("JWT"));
  h["alg"] = J(json_string(alg == JWT_ALG_NONE ? "none" : jwt_alg_str((jwt_alg_t)alg)));
  e.header = snapshot(h); e.payload = snapshot(c); e.alg = (jwt_alg_t)alg; e.key = key;
  return e;
}

// model update for a configuration op given the library's return code is as the statement says; returns expected code (or -1000 = unchecked)
inline int model_apply(BModel &m, const BOp &o) {
  switch (o.k % B_N) {
  case B_HSET: case B_CSET: {
    bool h = (o.k % B_N) == B_HSET; Map &mp = h ? m.headers : m.claims; const char *n = h ? HNAMES[o.a % NHN] : CNAMES[o.a % NCN]; const Val &v = val_of(o.b, o.c);
    if (mp.count(n) && !(o.c & 1)) return JWT_VALUE_ERR_EXIST;
    mp[n] = val_json_model(v); return JWT_VALUE_ERR_NONE; }
  case B_HDEL: if (o.a % 9 == 8) m.headers.clear(); else m.headers.erase(HNAMES[o.a % NHN]); return 0;
  case B_CDEL: if (o.a % 10 == 9) m.claims.clear(); else m.claims.erase(CNAMES[o.a % NCN]); return 0;
  case B_IAT: { int prev = m.iat ? 1 : 0; m.iat = o.a & 1; return prev; }
  case B_OFFSET: { long s = OFFS[o.b % 7]; if (o.a % 3 == 0) { m.exp_off = s; m.exp_on = s > 0; return 0; } if (o.a % 3 == 1) { m.nbf_off = s; m.nbf_on = s > 0; return 0; } return 1; }
  case B_SETKEY: { int key = (o.b % ((int)keytab().size() + 1)) - 1; int alg = ALGCH[o.a % NALGCH]; if (!admits(alg, key)) return 1; m.alg = alg; m.key = key; return 0; }
  case B_SETCB: m.cb = cb_kind_of(o.a, o.b); return 0;
  case B_CLOCK: m.now = CLK[o.a % 5]; return -1000;
  case B_ERRCLR: return -1000;
  }
  return -1000;
}

inline std::string bop_str(const BOp &o) {
  std::string s = BN[o.k % B_N]; s += "(";
  switch (o.k % B_N) {
  case B_HSET: case B_CSET: { const Val &v = val_of(o.b, o.c); s += std::string(((o.k % B_N) == B_HSET) ? HNAMES[o.a % NHN] : CNAMES[o.a % NCN]) + "," + (v.vt == 1 ? std::to_string(v.i) : v.vt == 3 ? (v.i ? "true" : "false") : std::string("'") + v.s + "'") + ((o.c & 1) ? ",replace" : ""); break; }
  case B_HDEL: s += o.a % 9 == 8 ? "NULL" : HNAMES[o.a % NHN]; break;
  case B_CDEL: s += o.a % 10 == 9 ? "NULL" : CNAMES[o.a % NCN]; break;
  case B_IAT: s += std::to_string(iat_arg(o.a)); break;
  case B_OFFSET: s += std::string(o.a % 3 == 0 ? "exp" : o.a % 3 == 1 ? "nbf" : "iss") + "," + std::to_string(OFFS[o.b % 7]); break;
  case B_SETKEY: { int key = (o.b % ((int)keytab().size() + 1)) - 1; jwt_alg_t a = ALGCH[o.a % NALGCH]; s += std::string(a == JWT_ALG_NONE ? "none" : jwt_alg_str(a)) + "," + (key < 0 ? "NULL" : keytab()[key].label); break; }
  case B_SETCB: s += cb_kind_of(o.a, o.b) == CB_UNSIGN ? "takes-key-and-alg-away" : CBN[o.a % CB_N]; if (allow_noctx() && o.a % CB_N != CB_NONE && o.a % CB_N != CB_MUTATE && (o.b % 5) == 4) s += ",registered-without-ctx"; break;
  case B_CLOCK: s += std::to_string(CLK[o.a % 5]); break;
  }
  return s + ")";
}
inline std::string bops_json(const std::vector<BOp> &ops) {
  std::string s = "["; for (size_t i = 0; i < ops.size(); i++) s += (i ? "," : "") + std::string("[") + std::to_string(ops[i].k) + "," + std::to_string(ops[i].a) + "," + std::to_string(ops[i].b) + "," + std::to_string(ops[i].c) + "]"; return s + "]";
}
inline std::string bops_readable(const std::vector<BOp> &ops) { std::string s = "["; for (size_t i = 0; i < ops.size(); i++) s += (i ? "," : "") + jstr(bop_str(ops[i])); return s + "]"; }
inline std::vector<BOp> bops_from_json(json_t *arr) { std::vector<BOp> r; size_t i; json_t *e; json_array_foreach(arr, i, e) { BOp o; o.k = (int)json_integer_value(json_array_get(e, 0)); o.a = (int)json_integer_value(json_array_get(e, 1)); o.b = (int)json_integer_value(json_array_get(e, 2)); o.c = (int)json_integer_value(json_array_get(e, 3)); r.push_back(o); } return r; }

}  // namespace vo
