#!/bin/sh
export VERIF_EVIDENCE_DIR=/verif/out/evidence-scratch
# usage: drv/seedtest.sh <patch.diff> <Cxx> [tier]
# applies a seeded change to /repo's working tree, runs one check against it, and ALWAYS undoes it again.
P=$(readlink -f "$1"); C=$2; T=${3:-quick}
cd /repo || exit 2
if ! git diff --quiet; then echo "/repo has uncommitted edits - refusing"; exit 2; fi
trap 'git -C /repo checkout -- . ; git -C /repo clean -fdq -- libjwt include tools 2>/dev/null' EXIT INT TERM
git apply "$P" || { echo "patch does not apply"; exit 3; }
cd /verif && ./check.py $C --tier $T 2>&1 | grep -v "^\[check\]" | grep -v "^  what" | cut -c1-220 | tail -6
