"""Per-property check definitions."""
import os, sys, json, glob, shutil, subprocess, time
import props as P
ck = P.ck
VERIF = ck.VERIF

BUILD_JOBS = []
REPLAYERS = {}   # pid -> fn(ctx, path) -> bool violated


def harness_job(name, flavor="asan", extra_link="-lrapidcheck", src=None):
    BUILD_JOBS.append(lambda: ck.build_harness(name, flavor, extra_link=extra_link, src=src))


def fuzz_job(name):
    BUILD_JOBS.append(lambda: ck.build_harness(name, "fuzz", src=os.path.join(VERIF, "fuzz", name + ".cc")))


def std_replayer(pid, name, extra_link="-lrapidcheck"):
    def fn(ctx, path):
        exe = ck.build_harness(name, "asan", extra_link=extra_link)
        return P.harness_replay_fn(exe, pid)(path)
    REPLAYERS[pid] = fn


# ---------------------------------------------------------------- C11
harness_job("C11_codec", extra_link="")
std_replayer("C11", "C11_codec", extra_link="")


@P.check("C11")
def c11(ctx):
    """base64url codec: exhaustive small inputs + buffer arithmetic + fuzz"""
    rule = ("enumerated: every byte string of length 0-3 through encode+decode; every string of length 1-4 over "
            "a 80-symbol alphabet (quick: both base64 alphabets, '=', '.', one representative per foreign byte class) "
            "or over all 255 NUL-free bytes (thorough) through decode; every length 0-4096 plus random lengths to 64KiB with "
            "seeded content through encode/decode/mutated decode under ASan. Non-trivial = input with a tail "
            "(len%3!=0 or len%4 in {2,3}), a 62/63 sextet, or a foreign/'='/'.' byte; enumerated inputs are distinct by construction.")
    cov, mn = P.generic_harness_check(
        ctx, "C11_codec", rule,
        ["own RFC 4648 codec in vlib.h is the reference", "ASan/UBSan detect out-of-bounds access",
         "inputs the statement leaves open (non-canonical tail bits, text after '=') may be rejected or decoded leniently"],
        extra_link="", exhaustive=True, min_nontrivial={"quick": 1000000, "thorough": 1000000})
    return P.finish(ctx, "exploration", cov, cov.pop("_assumptions", None) or
                    ["own RFC 4648 codec in vlib.h is the reference", "ASan/UBSan detect out-of-bounds access"], mn)
