// vlib.h - harness support: stats/evidence plumbing, violation reporting, own base64url codec,
// fake clock, JSON helpers.  Independent of libjwt internals (only public <jwt.h> + a few
// prototypes of non-exported functions that the properties anchor).
#pragma once
#include <jwt.h>
#include <jansson.h>
#include <cstdint>
#include <cstdio>
#include <cstdlib>
#include <cstring>
#include <ctime>
#include <functional>
#include <map>
#include <cerrno>
#include <set>
#include <string>
#include <sys/mman.h>
#include <map>
#include <unordered_set>
#include <vector>
#include <unistd.h>

extern "C" {
// non-exported (hidden visibility) library entry points; callable because we link libjwt.a statically
int jwt_base64uri_encode(char **_dst, const char *plain, int plain_len);
void *jwt_base64uri_decode(const char *src, int *ret_len);
unsigned int base64_encode(const unsigned char *in, unsigned int inlen, char *out);
unsigned int base64_decode(const char *in, unsigned int inlen, unsigned char *out);
int jwt_strcmp(const char *str1, const char *str2);
// sanitizer interface
void __sanitizer_set_death_callback(void (*cb)(void));
int __lsan_do_recoverable_leak_check(void);
void __lsan_disable(void);
void __lsan_enable(void);
}

namespace v {

// Process environment that a case ran under is part of the case: the time zone (every second worker runs in a zone that is not
// UTC - nothing about JWT time claims depends on local time). It is recorded in every replay object ("_tz") and restored on replay.
inline std::string &case_tz() { static std::string *z = new std::string; return *z; }
inline std::string with_env(const std::string &json) { if (json.empty() || json[0] != '{') return json; std::string ins = "\"_tz\":\"" + case_tz() + "\""; return json.size() > 1 && json[1] == '}' ? "{" + ins + "}" : "{" + ins + "," + json.substr(1); }
inline void apply_tz(const std::string &z) { case_tz() = z; if (z.empty()) unsetenv("TZ"); else setenv("TZ", z.c_str(), 1); tzset(); }

// ------------------------------------------------------------------ misc
inline uint64_t fnv(const void *p, size_t n, uint64_t h = 1469598103934665603ULL) {
  const unsigned char *c = (const unsigned char *)p;
  for (size_t i = 0; i < n; i++) { h ^= c[i]; h *= 1099511628211ULL; }
  return h;
}
inline uint64_t fnv(const std::string &s, uint64_t h = 1469598103934665603ULL) { return fnv(s.data(), s.size(), h); }
inline uint64_t mix(uint64_t a, uint64_t b) { a ^= b + 0x9e3779b97f4a7c15ULL + (a << 6) + (a >> 2); return a; }

struct Rng {  // splitmix64: used only by enumerator-style harnesses for content derived from VERIF_SEED
  uint64_t s;
  explicit Rng(uint64_t seed) : s(seed * 0x9e3779b97f4a7c15ULL + 0x1234567) {}
  uint64_t next() { uint64_t z = (s += 0x9e3779b97f4a7c15ULL); z = (z ^ (z >> 30)) * 0xbf58476d1ce4e5b9ULL; z = (z ^ (z >> 27)) * 0x94d049bb133111ebULL; return z ^ (z >> 31); }
  uint64_t below(uint64_t n) { return n ? next() % n : 0; }
  bool chance(int num, int den) { return below(den) < (uint64_t)num; }
  std::string bytes(size_t n) { std::string r(n, 0); for (auto &c : r) c = (char)next(); return r; }
};

inline std::string hex(const std::string &b) {
  static const char *d = "0123456789abcdef"; std::string r;
  for (unsigned char c : b) { r += d[c >> 4]; r += d[c & 15]; }
  return r;
}
inline std::string unhex(const std::string &h) {
  std::string r; auto val = [](char c) { return c <= '9' ? c - '0' : (c | 32) - 'a' + 10; };
  for (size_t i = 0; i + 1 < h.size(); i += 2) r += (char)(val(h[i]) * 16 + val(h[i + 1]));
  return r;
}

// JSON string escaping for evidence/replay output (bytes >= 0x80 and controls are \u00XX escaped:
// the files stay valid JSON whatever the harness puts in; readers get latin-1 code points back)
inline std::string jstr(const std::string &s) {
  std::string r = "\"";
  char buf[8];
  for (unsigned char c : s) {
    if (c == '"') r += "\\\""; else if (c == '\\') r += "\\\\";
    else if (c < 0x20 || c >= 0x7f) { snprintf(buf, sizeof buf, "\\u%04x", c); r += buf; }
    else r += (char)c;
  }
  return r + "\"";
}
// JSON string literal that keeps UTF-8 bytes as they are (for documents handed to the library)
inline std::string jutf8(const std::string &s) {
  std::string r = "\""; char buf[8];
  for (unsigned char c : s) { if (c == '"') r += "\\\""; else if (c == '\\') r += "\\\\"; else if (c < 0x20) { snprintf(buf, sizeof buf, "\\u%04x", c); r += buf; } else r += (char)c; }
  return r + "\"";
}
// decode of jstr-encoded string read back by jansson (utf-8 of latin-1 code points) -> raw bytes
inline std::string from_latin1_utf8(const std::string &u) {
  std::string r;
  for (size_t i = 0; i < u.size(); i++) {
    unsigned char c = u[i];
    if (c < 0x80) r += (char)c;
    else if ((c & 0xe0) == 0xc0 && i + 1 < u.size()) { r += (char)(((c & 0x1f) << 6) | (u[i + 1] & 0x3f)); i++; }
    else r += '?';
  }
  return r;
}

// ------------------------------------------------------------------ own base64url (RFC 4648 section 5)
static const char B64U[] = "ABCDEFGHIJKLMNOPQRSTUVWXYZabcdefghijklmnopqrstuvwxyz0123456789-_";
inline std::string b64u_enc(const std::string &in) {
  std::string out; size_t i = 0; const unsigned char *p = (const unsigned char *)in.data(); size_t n = in.size();
  for (; i + 2 < n; i += 3) {
    uint32_t v = (p[i] << 16) | (p[i + 1] << 8) | p[i + 2];
    out += B64U[v >> 18]; out += B64U[(v >> 12) & 63]; out += B64U[(v >> 6) & 63]; out += B64U[v & 63];
  }
  if (n - i == 1) { uint32_t v = p[i] << 16; out += B64U[v >> 18]; out += B64U[(v >> 12) & 63]; }
  else if (n - i == 2) { uint32_t v = (p[i] << 16) | (p[i + 1] << 8); out += B64U[v >> 18]; out += B64U[(v >> 12) & 63]; out += B64U[(v >> 6) & 63]; }
  return out;
}
inline int sextet(unsigned char c, bool allow_std = true) {
  if (c >= 'A' && c <= 'Z') return c - 'A';
  if (c >= 'a' && c <= 'z') return c - 'a' + 26;
  if (c >= '0' && c <= '9') return c - '0' + 52;
  if (c == '-') return 62; if (c == '_') return 63;
  if (allow_std) { if (c == '+') return 62; if (c == '/') return 63; }
  return -1;
}
// strict: url alphabet only, no padding, canonical (unused trailing bits zero)
inline bool b64u_dec_strict(const std::string &s, std::string &out) {
  out.clear(); if (s.size() % 4 == 1) return false;
  uint32_t acc = 0; int bits = 0;
  for (unsigned char c : s) { int v = sextet(c, false); if (v < 0) return false; acc = (acc << 6) | v; bits += 6; if (bits >= 8) { bits -= 8; out += (char)((acc >> bits) & 0xff); } }
  if (bits && (acc & ((1u << bits) - 1))) return false;
  return true;
}
// lenient: the most the properties allow the library to accept. C-string semantics (stops at NUL).
// Returns false for: len%4==1, a byte outside both alphabets before any '=', or an empty result.
enum class B64Class { Foreign, BadLen, Empty, Ok };
inline B64Class b64_dec_lenient(const std::string &s0, std::string &out) {
  std::string s = s0.substr(0, s0.find('\0'));
  out.clear();
  // foreign byte ahead of any '=' -> must be rejected
  for (unsigned char c : s) { if (c == '=') break; if (sextet(c) < 0) return B64Class::Foreign; }
  if (s.size() % 4 == 1) return B64Class::BadLen;
  uint32_t acc = 0; int bits = 0;
  for (unsigned char c : s) { if (c == '=') break; acc = (acc << 6) | sextet(c); bits += 6; if (bits >= 8) { bits -= 8; out += (char)((acc >> bits) & 0xff); } }
  return out.empty() ? B64Class::Empty : B64Class::Ok;
}
inline bool is_b64u_text(const std::string &s) { for (unsigned char c : s) if (sextet(c, false) < 0) return false; return true; }

// ------------------------------------------------------------------ fake clock
inline time_t &now_ref() { static time_t t = 1700000000; return t; }
inline void set_now(time_t t) { now_ref() = t; }
// a clock that moves: every reading of time() is followed by a step of this many seconds (0: the clock stands still, the default)
inline long &tick_ref() { static long t = 0; return t; }
inline void set_ticking(long step) { tick_ref() = step; }

// ------------------------------------------------------------------ JSON helpers (jansson as parser/printer/equality)
struct J {
  json_t *p = nullptr;
  J() {}
  explicit J(json_t *q) : p(q) {}
  J(const J &o) : p(o.p) { if (p) json_incref(p); }
  J &operator=(const J &o) { if (o.p) json_incref(o.p); if (p) json_decref(p); p = o.p; return *this; }
  ~J() { if (p) json_decref(p); }
  explicit operator bool() const { return p != nullptr; }
  static J parse(const std::string &s, size_t flags = 0) { json_error_t e; return J(json_loadb(s.data(), s.size(), flags, &e)); }
  std::string dump(size_t flags = JSON_COMPACT | JSON_SORT_KEYS | JSON_ENCODE_ANY) const {
    if (!p) return "<null>"; char *s = json_dumps(p, flags); if (!s) return "<undumpable>"; std::string r(s); free(s); return r; }
};
inline bool jeq(const J &a, const J &b) { return a.p && b.p && json_equal(a.p, b.p); }

// ------------------------------------------------------------------ stats / evidence
struct Violation { std::string signature, what, replay_json; };

struct Stats {
  uint64_t evaluations = 0, nontrivial_total = 0, distinct_by_construction = 0;
  std::map<std::string, uint64_t> classes;
  std::map<std::string, std::string> extra;  // raw JSON values
  std::unordered_set<uint64_t> fps;
  size_t fp_cap = 300000;
  std::vector<std::string> samples;  // JSON texts
  size_t sample_cap = 8;
  uint64_t sample_seen = 0;
  std::vector<Violation> violations;
  std::map<std::string, uint64_t> known_hits;
  std::set<std::string> known;
  std::string out_path;

  void cls(const std::string &k, uint64_t n = 1) { classes[k] += n; }
  void nontrivial(uint64_t fp) { nontrivial_total++; if (fps.size() < fp_cap) fps.insert(fp); }
  void nontrivial_distinct(uint64_t n = 1) { nontrivial_total += n; distinct_by_construction += n; }
  // keep the first few and then progressively sparser samples
  bool want_sample() { sample_seen++; return samples.size() < sample_cap && (sample_seen < 4 || (sample_seen & (sample_seen - 1)) == 0); }
  void sample(const std::string &json) { if (samples.size() < sample_cap) samples.push_back(json); }

  bool is_known(const std::string &sig) const {
    for (auto &k : known) { if (k == sig) return true; if (!k.empty() && k.back() == '*' && sig.compare(0, k.size() - 1, k, 0, k.size() - 1) == 0) return true; }
    return false;
  }
  // returns true if this is a NEW (unknown) violation that was recorded
  bool violation(const std::string &sig, const std::string &what, const std::string &replay_json) {
    if (is_known(sig)) { known_hits[sig]++; return false; }
    for (auto &v : violations) if (v.signature == sig) return true;
    if (violations.size() < 20) violations.push_back({sig, what, with_env(replay_json)});
    return true;
  }
  void load_known(const char *path) {
    FILE *f = fopen(path, "r"); if (!f) return; char line[2048];
    while (fgets(line, sizeof line, f)) { std::string s(line); while (!s.empty() && (s.back() == '\n' || s.back() == '\r')) s.pop_back(); if (!s.empty()) known.insert(s); }
    fclose(f);
  }
  void dump() const {
    if (out_path.empty()) return;
    FILE *f = fopen((out_path + ".tmp").c_str(), "w"); if (!f) return;
    fprintf(f, "{\"evaluations\":%llu,\"nontrivial_total\":%llu,\"distinct_by_construction\":%llu,\n\"classes\":{", (unsigned long long)evaluations, (unsigned long long)nontrivial_total, (unsigned long long)distinct_by_construction);
    bool first = true;
    for (auto &kv : classes) { fprintf(f, "%s%s:%llu", first ? "" : ",", jstr(kv.first).c_str(), (unsigned long long)kv.second); first = false; }
    fprintf(f, "},\n\"extra\":{"); first = true;
    for (auto &kv : extra) { fprintf(f, "%s%s:%s", first ? "" : ",", jstr(kv.first).c_str(), kv.second.c_str()); first = false; }
    fprintf(f, "},\n\"known_hits\":{"); first = true;
    for (auto &kv : known_hits) { fprintf(f, "%s%s:%llu", first ? "" : ",", jstr(kv.first).c_str(), (unsigned long long)kv.second); first = false; }
    fprintf(f, "},\n\"samples\":["); first = true;
    for (auto &s : samples) { fprintf(f, "%s%s", first ? "" : ",\n", s.c_str()); first = false; }
    fprintf(f, "],\n\"violations\":["); first = true;
    for (auto &v : violations) { fprintf(f, "%s{\"signature\":%s,\"what\":%s,\"replay\":%s}", first ? "" : ",\n", jstr(v.signature).c_str(), jstr(v.what).c_str(), v.replay_json.empty() ? "null" : v.replay_json.c_str()); first = false; }
    fprintf(f, "]}\n"); fclose(f);
    rename((out_path + ".tmp").c_str(), out_path.c_str());
    FILE *g = fopen((out_path + ".fp").c_str(), "wb");
    if (g) { for (uint64_t x : fps) fwrite(&x, 8, 1, g); fclose(g); }
  }
};

inline Stats &stats() { static Stats s; return s; }

// current case, for sanitizer deaths: a lazily evaluated serializer
inline std::function<std::string()> &cur_case() { static std::function<std::string()> f; return f; }
inline bool &alive() { static bool a = true; return a; }
inline void on_death() {
  if (!alive()) return;
  Stats &s = stats();
  if (!s.out_path.empty() && cur_case()) {
    std::string c = with_env(cur_case()());
    FILE *f = fopen((s.out_path + ".cur").c_str(), "w");
    if (f) { fputs(c.c_str(), f); fclose(f); }
  }
  s.dump();
}

struct Args {
  std::string tier = "quick", out, replay, known;
  uint64_t seed = 1; int worker = 0, nworkers = 1;
  std::map<std::string, std::string> kv;
  bool thorough() const { return tier == "thorough"; }
};
inline Args parse_args(int argc, char **argv) {
  Args a;
  for (int i = 1; i < argc; i++) {
    std::string k = argv[i]; std::string val = (i + 1 < argc) ? argv[i + 1] : "";
    if (k == "--tier") { a.tier = val; i++; } else if (k == "--seed") { a.seed = strtoull(val.c_str(), 0, 10); i++; }
    else if (k == "--worker") { a.worker = atoi(val.c_str()); i++; } else if (k == "--nworkers") { a.nworkers = atoi(val.c_str()); i++; }
    else if (k == "--out") { a.out = val; i++; } else if (k == "--replay") { a.replay = val; i++; }
    else if (k == "--known") { a.known = val; i++; }
    else if (k.rfind("--", 0) == 0) { a.kv[k.substr(2)] = val; i++; }
  }
  stats().out_path = a.out;
  { static const char *ZONES[] = {"", "JST-9", "", "EST5EDT,M3.2.0,M11.1.0", "", "IST-5:30", "", "NZST-12NZDT,M9.5.0,M4.1.0/3"};
    std::string z = ZONES[a.worker & 7];
    if (!a.replay.empty()) { z = ""; FILE *f = fopen(a.replay.c_str(), "rb"); if (f) { char buf[4096]; size_t n = fread(buf, 1, sizeof buf - 1, f); buf[n] = 0; fclose(f); const char *p = strstr(buf, "\"_tz\""); if (p) { p += 5; while (*p == ' ' || *p == ':') p++; if (*p == '"') { p++; const char *e = strchr(p, '"'); if (e) z.assign(p, e - p); } } } }
    apply_tz(z); }
  if (!a.known.empty()) stats().load_known(a.known.c_str());
  __sanitizer_set_death_callback(on_death);
  atexit([] { alive() = false; });
  return a;
}
inline std::string read_file(const std::string &p) {
  FILE *f = fopen(p.c_str(), "rb"); if (!f) return ""; std::string r; char buf[65536]; size_t n;
  while ((n = fread(buf, 1, sizeof buf, f)) > 0) r.append(buf, n); fclose(f); return r;
}
inline int finish() { cur_case() = nullptr; stats().dump(); return stats().violations.empty() ? 0 : 3; }

// tracking allocator for jwt_set_alloc(): every pointer released through it must have come from it.
// (A library that releases OPENSSL_malloc'ed memory with the application's free hook, or the other way round,
// looks fine with the default allocator and corrupts a pool allocator.)
inline std::unordered_set<void *> &guard_live() { static std::unordered_set<void *> *s = new std::unordered_set<void *>; return *s; }
inline long &guard_foreign_frees() { static long n = 0; return n; }
inline void *guard_malloc(size_t n) { void *p = malloc(n ? n : 1); if (p) guard_live().insert(p); return p; }
inline void guard_free(void *p) { if (!p) return; if (!guard_live().erase(p)) { guard_foreign_frees()++; return; } free(p); }
// buffers the library hands to the caller (tokens, JSON text) come from the installed allocator: an application that installed one
// releases them with its own free
inline bool &guard_active() { static bool a = false; return a; }
// page-guard allocator (jwt_set_alloc): every block ENDS at an inaccessible page, so a read or write one octet past it faults - also inside
// libraries no sanitizer instruments (a length handed to OpenSSL that is larger than the buffer). Blocks start at (page end - size): structures,
// whose size is a multiple of their alignment, stay aligned.
struct PgBlock { void *base; size_t total; };
inline std::map<void *, PgBlock> &pg_live() { static std::map<void *, PgBlock> *m = new std::map<void *, PgBlock>; return *m; }
inline bool &pg_active() { static bool a = false; return a; }
inline void *pg_malloc(size_t n) { if (!n) n = 1; const size_t ps = 4096; size_t pages = (n + ps - 1) / ps; char *base = (char *)mmap(nullptr, (pages + 1) * ps, PROT_READ | PROT_WRITE, MAP_PRIVATE | MAP_ANONYMOUS, -1, 0);
  if (base == (char *)MAP_FAILED) return nullptr; mprotect(base + pages * ps, ps, PROT_NONE); char *p = base + pages * ps - n; memset(base, 0xA5, pages * ps - n > 0 ? pages * ps - n : 0); pg_live()[p] = {base, (pages + 1) * ps}; return p; }
inline void pg_free(void *p) { if (!p) return; auto it = pg_live().find(p); if (it == pg_live().end()) { guard_foreign_frees()++; return; } munmap(it->second.base, it->second.total); pg_live().erase(it); }
inline void app_free(void *p) { if (pg_active()) pg_free(p); else if (guard_active()) guard_free(p); else free(p); }
// recycling allocator (installed through jwt_set_alloc by the "same address, other object" checks): a freed block is handed out again,
// most recently freed first, to the next request of the same size - what a pool allocator or a plain malloc does, and what ASan's
// quarantine prevents. Freed blocks are filled with 0xDD so that anything still reading them reads rubbish.
struct Recycler { std::map<size_t, std::vector<void *>> free_; std::map<void *, size_t> size_; long reused = 0; };
inline Recycler &recycler() { static Recycler *r = new Recycler; return *r; }
inline void *recycle_malloc(size_t n) { Recycler &r = recycler(); if (!n) n = 1; auto &v = r.free_[n]; if (!v.empty()) { void *p = v.back(); v.pop_back(); r.reused++; return p; } void *p = malloc(n); if (p) r.size_[p] = n; return p; }
inline void recycle_free(void *p) { if (!p) return; Recycler &r = recycler(); auto it = r.size_.find(p); if (it == r.size_.end()) { free(p); return; } memset(p, 0xDD, it->second); r.free_[it->second].push_back(p); }

// jwt_value_t constructors (the jwt_set_* macros of jwt.h are C-only: they assign 0 to an enum)
// jwt_value_t helpers that do exactly what the jwt_set_{GET,SET}_* macros of jwt.h do (those are C-only statement expressions),
// on a struct that is DIRTY beforehand: applications reuse one jwt_value_t for many calls, and the macros assign only
// type, name, the value member of that type, error (+ replace for setters, pretty for JSON getters) - nothing else may matter.
inline jwt_value_t val_dirty() { jwt_value_t x; memset(&x, 0xA5, sizeof x); return x; }
inline jwt_value_t val_get(jwt_value_type_t t, const char *name) {
  jwt_value_t x = val_dirty(); x.type = t; x.name = name; x.error = JWT_VALUE_ERR_NONE;
  switch (t) { case JWT_VALUE_INT: x.int_val = 0; break; case JWT_VALUE_STR: x.str_val = NULL; break; case JWT_VALUE_BOOL: x.bool_val = 0; break;
               case JWT_VALUE_JSON: x.pretty = 0; x.json_val = NULL; break; default: x.int_val = 0; x.pretty = 0; break; }
  return x; }
inline jwt_value_t val_int(const char *name, long i, int replace = 0) { jwt_value_t x = val_dirty(); x.type = JWT_VALUE_INT; x.replace = replace; x.name = name; x.int_val = i; x.error = JWT_VALUE_ERR_NONE; return x; }
inline jwt_value_t val_str(const char *name, const char *s, int replace = 0) { jwt_value_t x = val_dirty(); x.type = JWT_VALUE_STR; x.replace = replace; x.name = name; x.str_val = s; x.error = JWT_VALUE_ERR_NONE; return x; }
inline jwt_value_t val_bool(const char *name, int b, int replace = 0) { jwt_value_t x = val_dirty(); x.type = JWT_VALUE_BOOL; x.replace = replace; x.name = name; x.bool_val = b; x.error = JWT_VALUE_ERR_NONE; return x; }
inline jwt_value_t val_json(const char *name, const char *js, int replace = 0) { jwt_value_t x = val_dirty(); x.type = JWT_VALUE_JSON; x.replace = replace; x.name = name; x.json_val = (char *)js; x.error = JWT_VALUE_ERR_NONE; return x; }

// shrinking budget: rapidcheck re-runs the property for every shrink candidate and has no limit of its own; with large cases
// (JSON trees, long histories) that can take many minutes. After the first failure at most `budget` further cases are judged;
// later candidates count as passing, which ends the shrink at the smallest failing case found so far.
inline int &fail_seen() { static int n = 0; return n; }
inline bool shrink_exhausted(int budget = 3000) { static int after = 0; if (!fail_seen()) return false; return ++after > budget; }

// provider switch (C12 anchors): 0=openssl 1=gnutls
inline const char *prov_name(int p) { return p ? "gnutls" : "openssl"; }
// Every harness case starts with set_provider(). It also leaves ONE unrelated entry on OpenSSL's per-thread error queue: an
// application that uses OpenSSL for anything else (TLS, other keys) calls libjwt with a queue that is not empty, and nothing in
// libjwt's contract asks for a clean one. (The fuzz targets take the state of the queue from an input bit; the command-line tools run with a clean queue.)
extern "C" { void ERR_clear_error(void); void ERR_new(void); void ERR_set_debug(const char *file, int line, const char *func); void ERR_set_error(int lib, int reason, const char *fmt, ...); }
inline void pollute_openssl_error_queue() { ERR_clear_error(); ERR_new(); ERR_set_debug("verif-harness", 0, "unrelated"); ERR_set_error(128 /* ERR_LIB_USER */, 101, "left over by the application"); }
inline bool set_provider(int p, bool pollute = true) { bool ok = jwt_set_crypto_ops(prov_name(p)) == 0; if (pollute) { pollute_openssl_error_queue(); errno = ERANGE; /* left over by an unrelated earlier call of the application */ } else { ERR_clear_error(); errno = 0; } return ok; }

}  // namespace v

#ifndef VLIB_NO_ASAN_DEFAULTS
extern "C" const char *__asan_default_options() { return "detect_leaks=0:allocator_may_return_null=1:exitcode=99"; }
#endif
// The statically linked library and the harness get their time() from here (-Wl,--wrap=time).
extern "C" time_t __wrap_time(time_t *t) { time_t n = v::now_ref(); if (v::tick_ref()) v::now_ref() += v::tick_ref();   /* (no write while the clock stands still: threads read it concurrently in C18) */
  if (t) *t = n; return n; }
