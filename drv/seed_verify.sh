#!/bin/bash
# usage: drv/seed_verify.sh <Cxx> [name] [srcdir]
# Confirms an agent-written seeded change: fresh scratch worktree; demo passes without the patch; with the patch the
# library builds, the repository's tests pass and the demo fails. Copies the deliverables to /verif/seeded/<name>/.
ID=$1; NAME=${2:-$ID}; SRC=${3:-/tmp/wt-$ID}; W=/tmp/sv-$ID-$$; OUT=/verif/seeded/$NAME
[ -f $SRC/patch.diff ] || { echo "no patch in $SRC"; exit 2; }
mkdir -p $OUT; cp $SRC/patch.diff $OUT/; for f in demo.c demo.sh NOTES.md; do [ -f $SRC/$f ] && cp $SRC/$f $OUT/; done; [ -d $SRC/demo_files ] && cp -r $SRC/demo_files $OUT/
# keep only library/tool changes in the patch
git -C /repo worktree add -q --detach $W HEAD || exit 2
cleanup() { git -C /repo worktree remove --force $W 2>/dev/null; rm -rf $W; }
trap cleanup EXIT
cd $W; for f in demo.c demo.sh; do [ -f $OUT/$f ] && cp $OUT/$f .; done; [ -d $OUT/demo_files ] && cp -r $OUT/demo_files .; chmod +x demo.sh 2>/dev/null
build() { rm -rf _build; cmake -G Ninja -S . -B _build -DCMAKE_C_FLAGS=-Wno-error -DWITH_GNUTLS=ON -DWITH_TESTS=ON >/dev/null 2>&1 && cmake --build _build >/dev/null 2>&1; }
rundemo() { if [ -f demo.sh ]; then timeout 900 ./demo.sh >demo.out 2>&1; else cc -I include -I _build -DJWT_STATIC_DEFINE demo.c _build/libjwt.a -ljansson -lgnutls -lssl -lcrypto -lpthread -o demo.bin >demo.out 2>&1 && timeout 900 ./demo.bin >>demo.out 2>&1; fi; echo $?; }
build || { echo "BASE BUILD FAILED"; exit 3; }
D0=$(rundemo); 
git apply $OUT/patch.diff || { echo "PATCH DOES NOT APPLY"; exit 3; }
build || { echo "BUILD WITH PATCH FAILED"; exit 3; }
T=$(ctest --test-dir _build -j8 --timeout 900 2>&1 | grep -E "tests passed|tests failed" | head -1)
D1=$(rundemo); tail -3 demo.out > $OUT/demo_with_patch.tail
echo "demo without patch: exit $D0 | tests with patch: $T | demo with patch: exit $D1"
python3 - "$OUT" "$ID" "$D0" "$T" "$D1" <<'PY'
import json,sys,os
out,pid,d0,t,d1=sys.argv[1:6]
m={"property":pid,"demo_exit_without_patch":int(d0),"tests_with_patch":t,"demo_exit_with_patch":int(d1),
   "confirmed": int(d0)==0 and int(d1)!=0 and "100% tests passed" in t,
   "ran":["fresh worktree of /repo HEAD","cmake+build+demo (no patch)","git apply patch.diff; cmake+build; ctest -j8; demo"]}
mp=os.path.join(out,"meta.json")
if os.path.exists(mp):
    old=json.load(open(mp)); old.update(m); m=old
json.dump(m,open(mp,"w"),indent=1)
PY
