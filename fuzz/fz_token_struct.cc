// C06 struct: [cfg_lo][cfg_hi][flags][hlen_lo][hlen_hi][plen_lo][plen_hi] header | payload | signature(rest)
// flags: bit0 std alphabet, bit1 '=' padding, bit2 sign header.payload with the configured key (reach accept paths),
//        bit3 sign with the alg in the header instead of the pinned one
#include "fz_token.h"
extern "C" int LLVMFuzzerInitialize(int *, char ***) { init_cfgs(); emit_corpus(1); return 0; }
static std::string enc(const std::string &b, int flags) {
  std::string e = b64u_enc(b);
  if (flags & 1) for (auto &c : e) { if (c == '-') c = '+'; else if (c == '_') c = '/'; }
  if (flags & 2) while (e.size() % 4) e += '=';
  return e;
}
extern "C" int LLVMFuzzerTestOneInput(const uint8_t *data, size_t size) {
  init_cfgs();
  if (size < 7) return 0;
  size_t ci = data[0] | (data[1] << 8); int flags = data[2];
  size_t hl = data[3] | (data[4] << 8), pl = data[5] | (data[6] << 8);
  const char *p = (const char *)data + 7; size_t rest = size - 7;
  if (hl > rest) hl = rest; std::string h(p, hl); p += hl; rest -= hl;
  if (pl > rest) pl = rest; std::string pay(p, pl); p += pl; rest -= pl;
  std::string sig(p, rest);
  std::string in = enc(h, flags) + "." + enc(pay, flags);
  const Cfg &c = *CFGS[(ci & 0x0fff) % CFGS.size()];   // bits 12-15 are mode bits (refusing callback, error queue, reused checker, application allocator)
  if ((flags & 4) && c.k) {
    jwt_alg_t a = cfg_alg(c);
    if (flags & 8) { TokParts tp = split_token(in + "."); std::string an; if (header_alg(tp, an) && alg_by_name(an)) a = alg_by_name(an)->alg; }
    std::string s = ref_sign(*c.k, a, in); if (!s.empty()) sig = s;
  }
  std::string tok = in + "." + enc(sig, flags & 1);
  tok = tok.substr(0, tok.find('\0'));
  verify_with_oracle(ci, tok);
  return 0;
}
