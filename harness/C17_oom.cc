// C17 - allocation failure is reported, never a crash, never a wrong success.
// Fork-per-fault enumeration: for every scenario and every index k of its allocations, a child runs the scenario
// with the k-th request failing; its transcript must be the fault-free transcript or a prefix of it followed by one
// documented failure value.
#include "vlib.h"
#include "vkeys.h"
#include "vops.h"
#include <execinfo.h>
#include <sys/wait.h>
#include <functional>
#include <fcntl.h>
using namespace v;
extern "C" void __sanitizer_symbolize_pc(void *pc, const char *fmt, char *out_buf, size_t out_buf_size);

// ------------------------------------------------------------------ fault injector (public jwt_set_alloc)
static volatile bool g_armed = false; static long g_count = 0, g_fail_at = -1; static void *g_bt[40]; static int g_btn = 0; static int g_btfd = -1;
static std::string g_cur_scen;
static void fi_foreign(void *p) {
  if (g_fail_at < 0) {   // fault-free baseline run in the parent: record and go on (the block is simply not released)
    stats().violation("C17:pointer-not-from-installed-allocator-freed:fault-free-run", "the library passed a pointer that the installed allocator never returned to its free hook (fault-free run of " + g_cur_scen.substr(0, 80) + ")", "{\"scenario\":" + jstr(g_cur_scen) + ",\"fault_index\":0,\"mode\":\"fault-free\"}");
    return;
  }
  fprintf(stderr, "ERROR: VerifAllocator: pointer-not-from-installed-allocator passed to its free hook (%p)\n", p); fflush(stderr); abort();
}
static void *fi_malloc(size_t n);
static void *fi_malloc_real(size_t n) { void *p = malloc(n ? n : 1); if (p) guard_live().insert(p); return p; }
static void *fi_malloc(size_t n) {
  if (g_armed) { g_count++; if (g_count == g_fail_at) { bool a = g_armed; g_armed = false; g_btn = backtrace(g_bt, 40); if (g_btfd >= 0) { if (write(g_btfd, &g_btn, sizeof g_btn) < 0 || write(g_btfd, g_bt, sizeof(void *) * g_btn) < 0) {} } g_armed = a; return nullptr; } }
  bool a2 = g_armed; g_armed = false; void *p = fi_malloc_real(n); g_armed = a2; return p;
}
// everything the library releases through the hook must have come from the hook
static void fi_free(void *p) { if (!p) return; bool a = g_armed; g_armed = false; bool ours = guard_live().erase(p) != 0; g_armed = a; if (!ours) { fi_foreign(p); return; } free(p); }
template <class F> static auto lib(F f) -> decltype(f()) { g_armed = true; auto r = f(); g_armed = false; return r; }
template <class F> static void libv(F f) { g_armed = true; f(); g_armed = false; }

// ------------------------------------------------------------------ transcript
struct Stop {};
struct Tr {
  std::vector<std::string> e; const std::vector<std::string> *base = nullptr; bool diverged = false; bool cont = false; size_t first_div = 0;
  // record one observable result; in a child: stop at the first entry that differs from the baseline (stop mode),
  // or remember where it was and carry on (continue mode: the application ignores the reported failure)
  void step(const std::string &label, bool ok, const std::string &detail) {
    std::string s = label + "=" + (ok ? "OK:" : "FAIL:") + detail; e.push_back(s);
    if (base && !diverged && (e.size() > base->size() || (*base)[e.size() - 1] != s)) { diverged = true; first_div = e.size() - 1; if (!cont) throw Stop(); }
  }
};
static Tr *T;

static Pool *POOLP; static Pool &POOL() { return *POOLP; }
static std::string norm_token(const KeySpec *k, const char *tok) {
  if (!tok) return "NULL";
  std::string t(tok); TokParts tp = split_token(t); std::string an; bool ha = header_alg(tp, an); const AlgInfo *ai = ha ? alg_by_name(an) : nullptr;
  bool randomized = ai && (ai->kind == K_EC || ai->pss);
  if (!randomized || !k) return t;
  return tp.signing_input + ".<" + (ref_valid(*k, t) ? "valid-signature" : "INVALID-SIGNATURE") + ">";
}

// RAII so that a Stop unwinds through the frees (cleanup paths are part of what must not crash)
struct Set { jwk_set_t *s = nullptr; ~Set() { if (s) libv([&] { jwks_free(s); }); } };
struct Bld { jwt_builder_t *b = nullptr; ~Bld() { if (b) libv([&] { jwt_builder_free(b); }); } };
struct Chk { jwt_checker_t *c = nullptr; ~Chk() { if (c) libv([&] { jwt_checker_free(c); }); } };

static std::string describe_set(jwk_set_t *s, bool *ok) {
  *ok = true; if (!s) { *ok = false; return "NULL"; }
  std::string d; if (jwks_error(s)) { *ok = false; d += "set-error;"; }
  size_t n = jwks_item_count(s); d += "n=" + std::to_string(n) + ";";
  for (size_t i = 0; i < n; i++) { const jwk_item_t *it = jwks_item_get(s, i); if (!it) { d += "null-item;"; *ok = false; continue; }
    if (jwks_item_error(it)) { *ok = false; d += "bad;"; } else d += "kty" + std::to_string(jwks_item_kty(it)) + "/" + std::to_string(jwks_item_key_bits(it)) + "/alg" + std::to_string(jwks_item_alg(it)) + "/" + (jwks_item_kid(it) ? jwks_item_kid(it) : "-") + ";"; }
  return d;
}
static const jwk_item_t *load(Set &set, const std::string &doc, int how, const char *label) {
  jwk_set_t *r = nullptr;
  switch (how) {
  case 0: r = lib([&] { return jwks_create(doc.c_str()); }); break;
  case 1: r = lib([&] { return jwks_load_strn(set.s, doc.data(), doc.size()); }); break;
  case 2: { FILE *f = fmemopen((void *)doc.data(), doc.size(), "r"); r = lib([&] { return jwks_load_fromfp(set.s, f); }); fclose(f); break; }
  }
  if (r) set.s = r;
  bool ok; std::string d = describe_set(r, &ok); T->step(label, ok, d);
  return r && jwks_item_count(r) ? jwks_item_get(r, jwks_item_count(r) - 1) : nullptr;
}

static int g_cb_mode = 0;
static int scen_cb(jwt_t *jwt, jwt_config_t *) {
  // runs while armed: these are library operations on the handed jwt_t
  if (g_cb_mode == 1) { jwt_value_t v = val_int("cb", 7, 1); int r = jwt_claim_set(jwt, &v); if (r) return 1; v = val_str("cbh", "x", 1); if (jwt_header_set(jwt, &v)) return 1; }
  // mode 3: a callback that edits the token it is handed so that the checked claims would pass (C19: that must not change the verdict, with or without a fault)
  if (g_cb_mode == 3) { jwt_claim_del(jwt, "exp"); jwt_claim_del(jwt, "nbf"); jwt_value_t v = val_str("iss", "issuer", 1); if (jwt_claim_set(jwt, &v)) return 1; }
  if (g_cb_mode == 2) { jwt_value_t v = val_get(JWT_VALUE_JSON, nullptr); if (jwt_claim_get(jwt, &v) == JWT_VALUE_ERR_NONE) { bool a = g_armed; g_armed = false; free(v.json_val); g_armed = a; } v = val_get(JWT_VALUE_STR, "iss"); jwt_claim_get(jwt, &v); }
  return 0;
}

// ------------------------------------------------------------------ scenarios
struct Scen { std::string name; std::function<void()> run; };
static std::vector<Scen> SC; static uint64_t G_SEED = 1; static bool G_CONT_ALL = false;

static std::string jwk_for(const char *key, bool priv, const char *alg, const char *kid = "k1") { JwkOpts o; o.priv = priv; o.alg = alg ? alg : ""; o.kid = kid ? kid : ""; return jwk_json(POOL().get(key), o); }

static void scen_builder(int prov, const char *key, const char *alg_attr, jwt_alg_t expl, int cbmode) {
  set_provider(prov); set_now(1700000000); g_cb_mode = cbmode;
  Set set; const jwk_item_t *item = nullptr; const KeySpec *ks = key ? &POOL().get(key) : nullptr;
  if (key) item = load(set, jwk_for(key, true, alg_attr), 0, "load-key");
  Bld b; b.b = lib([] { return jwt_builder_new(); }); T->step("builder_new", b.b != nullptr, "");
  if (!b.b) return;
  if (key) { int r = lib([&] { return jwt_builder_setkey(b.b, expl, item); }); T->step("setkey", r == 0, std::to_string(r)); }
  jwt_value_t v = val_str("iss", "issuer", 0); int r = lib([&] { return (int)jwt_builder_claim_set(b.b, &v); }); T->step("claim_set-str", r == 0, std::to_string(r));
  v = val_int("n", 42, 0); r = lib([&] { return (int)jwt_builder_claim_set(b.b, &v); }); T->step("claim_set-int", r == 0, std::to_string(r));
  v = val_bool("adm", 1, 1); r = lib([&] { return (int)jwt_builder_claim_set(b.b, &v); }); T->step("claim_set-bool", r == 0, std::to_string(r));
  v = val_json("obj", "{\"a\":[1,2,{\"b\":null}],\"s\":\"x\"}", 0); r = lib([&] { return (int)jwt_builder_claim_set(b.b, &v); }); T->step("claim_set-json", r == 0, std::to_string(r));
  v = val_json(nullptr, "{\"m1\":1,\"m2\":\"two\",\"n\":43}", 1); r = lib([&] { return (int)jwt_builder_claim_set(b.b, &v); }); T->step("claim_merge-json", r == 0, std::to_string(r));
  v = val_json(nullptr, "{\"m1\":99,\"x1\":1,\"x2\":\"two\",\"x3\":[1,2]}", 0); r = lib([&] { return (int)jwt_builder_claim_set(b.b, &v); }); T->step("claim_merge-json-without-replace", r == 0, std::to_string(r));
  v = val_json(nullptr, "{\"h1\":1,\"h2\":\"two\"}", 0); r = lib([&] { return (int)jwt_builder_header_set(b.b, &v); }); T->step("header_merge-json-without-replace", r == 0, std::to_string(r));
  v = val_str("kid", "k1", 1); r = lib([&] { return (int)jwt_builder_header_set(b.b, &v); }); T->step("header_set", r == 0, std::to_string(r));
  v = val_get(JWT_VALUE_INT, "n"); r = lib([&] { return (int)jwt_builder_claim_get(b.b, &v); }); T->step("claim_get-int", r == 0, std::to_string(r) + ":" + std::to_string(v.int_val));
  v = val_get(JWT_VALUE_JSON, "obj"); r = lib([&] { return (int)jwt_builder_claim_get(b.b, &v); }); { std::string js = v.json_val ? v.json_val : "NULL"; if (v.json_val) free(v.json_val); T->step("claim_get-json", r == 0, std::to_string(r) + ":" + js); }
  v = val_get(JWT_VALUE_JSON, nullptr); r = lib([&] { return (int)jwt_builder_claim_get(b.b, &v); }); { std::string js = v.json_val ? v.json_val : "NULL"; if (v.json_val) free(v.json_val); T->step("claim_get-all", r == 0, std::to_string(r) + ":" + js); }
  r = lib([&] { return (int)jwt_builder_claim_del(b.b, "adm"); }); T->step("claim_del", r == 0, std::to_string(r));
  r = lib([&] { return jwt_builder_time_offset(b.b, JWT_CLAIM_EXP, 3600); }); T->step("time_offset-exp", r == 0, std::to_string(r));
  r = lib([&] { return jwt_builder_time_offset(b.b, JWT_CLAIM_NBF, 5); }); T->step("time_offset-nbf", r == 0, std::to_string(r));
  if (cbmode) { r = lib([&] { return jwt_builder_setcb(b.b, scen_cb, nullptr); }); T->step("setcb", r == 0, std::to_string(r)); }
  for (int i = 0; i < 2; i++) {
    char *t = lib([&] { return jwt_builder_generate(b.b); }); std::string nt = norm_token(ks, t); int flag = jwt_builder_error(b.b); free(t);
    T->step("generate" + std::to_string(i), nt != "NULL", nt + (nt == "NULL" ? (flag ? ":flagged" : ":NOT-FLAGGED") : ""));
    libv([&] { jwt_builder_error_clear(b.b); });
  }
}

static void scen_checker(int prov, const char *key, const char *alg_attr, jwt_alg_t expl, int cbmode, int tokkind) {
  set_provider(prov); set_now(1700000000); g_cb_mode = cbmode;
  const KeySpec *ks = key ? &POOL().get(key) : nullptr; jwt_alg_t alg = expl != JWT_ALG_NONE ? expl : alg_attr ? jwt_str_alg(alg_attr) : JWT_ALG_NONE;
  // tokens are built outside the fault window by the reference signer
  static KeySpec dummy; std::string hdr = std::string("{\"alg\":\"") + (alg == JWT_ALG_NONE ? "none" : jwt_alg_str(alg)) + "\",\"typ\":\"JWT\"}";
  std::string good = ref_token(ks ? *ks : dummy, alg, hdr, "{\"iss\":\"issuer\",\"sub\":\"s\",\"exp\":1800000000,\"nbf\":1600000000,\"o\":{\"a\":[1,2]}}");
  std::string tok = good;
  switch (tokkind) {
  case 1: if (ks) { size_t p = tok.size() - 3; tok[p] = tok[p] == 'A' ? 'B' : 'A'; } else tok += "AAAA"; break;                   // bad signature
  case 2: tok = ref_token(ks ? *ks : dummy, alg, hdr, "{\"iss\":\"issuer\",\"exp\":5}"); break;                                        // expired
  case 3: tok = ref_token(ks ? *ks : dummy, alg, hdr, "{\"iss\":\"other\",\"exp\":1800000000}"); break;                                // wrong iss
  case 4: tok = b64u_enc("{\"alg\":\"XS1\"}") + ".e30.AAAA"; break;                                                                     // unknown alg
  case 5: tok = b64u_enc(hdr) + "." + b64u_enc("{oops") + ".AAAA"; break;                                                                // payload not JSON
  case 6: tok = "nodots"; break;
  case 7: tok = b64u_enc("{\"alg\":\"HS256\"}") + "." + b64u_enc("{}") + "." + b64u_enc(ref_hmac("", "SHA256", b64u_enc("{\"alg\":\"HS256\"}") + "." + b64u_enc("{}"))); break;  // HS256 with empty key against whatever is configured
  }
  Set set; const jwk_item_t *item = nullptr;
  if (key) item = load(set, jwk_for(key, ks->kind == K_OCT, alg_attr), 0, "load-key");
  Chk c; c.c = lib([] { return jwt_checker_new(); }); T->step("checker_new", c.c != nullptr, "");
  if (!c.c) return;
  if (key) { int r = lib([&] { return jwt_checker_setkey(c.c, expl, item); }); T->step("setkey", r == 0, std::to_string(r)); }
  int r = lib([&] { return jwt_checker_claim_set(c.c, JWT_CLAIM_ISS, "issuer"); }); T->step("claim_set-iss", r == 0, std::to_string(r));
  { const char *g = lib([&] { return jwt_checker_claim_get(c.c, JWT_CLAIM_ISS); }); T->step("claim_get-iss", g != nullptr, g ? g : "NULL"); }
  r = lib([&] { return jwt_checker_time_leeway(c.c, JWT_CLAIM_NBF, 10); }); T->step("leeway", r == 0, std::to_string(r));
  if (cbmode) { r = lib([&] { return jwt_checker_setcb(c.c, scen_cb, nullptr); }); T->step("setcb", r == 0, std::to_string(r)); }
  for (int i = 0; i < 2; i++) {
    r = lib([&] { return jwt_checker_verify(c.c, tok.c_str()); }); int flag = jwt_checker_error(c.c);
    T->step("verify" + std::to_string(i), r == 0, r == 0 ? "accept" : std::string("reject") + (flag ? "" : ":NOT-FLAGGED"));
    libv([&] { jwt_checker_error_clear(c.c); });
  }
  // and the good token afterwards on the same object
  r = lib([&] { return jwt_checker_verify(c.c, good.c_str()); }); T->step("verify-good", r == 0, r == 0 ? "accept" : "reject");
}

static void scen_keyring(int prov) {
  set_provider(prov);
  Set set;
  std::string ks = "{\"keys\":[" + jwk_for("oct64", true, "HS256", "a") + "," + "{\"kty\":\"oct\",\"kid\":\"bad\"}" + "," + jwk_for("ec_p256", false, "ES256", "b") + "," + jwk_for("ed25519", true, nullptr, "a") + "]}";
  load(set, ks, 0, "load-set");
  if (!set.s) return;
  load(set, jwk_for("rsa_2048", false, "RS256", "r"), 1, "load-more-strn");
  load(set, jwk_for("ec_p384", true, nullptr, nullptr), 2, "load-more-fp");
  load(set, "{\"keys\": nope", 1, "load-nonjson");
  { jwk_item_t *it = lib([&] { return jwks_find_bykid(set.s, "b"); }); T->step("find-b", it != nullptr, it ? std::to_string(jwks_item_kty(it)) : "NULL"); }
  { jwk_item_t *it = lib([&] { return jwks_find_bykid(set.s, "zz"); }); T->step("find-zz", it == nullptr, it ? "found?" : "NULL"); }
  { int n = lib([&] { return jwks_error_any(set.s); }); T->step("error_any", true, std::to_string(n)); }
  { int n = lib([&] { return jwks_item_free_bad(set.s); }); T->step("free_bad", true, std::to_string(n)); }
  { int n = lib([&] { return jwks_item_free(set.s, 1); }); T->step("free-1", true, std::to_string(n)); }
  { bool ok; std::string d = describe_set(set.s, &ok); T->step("after-frees", true, d); }
  { int n = lib([&] { return jwks_item_free_all(set.s); }); T->step("free_all", true, std::to_string(n)); }
}

static void scen_load(int prov, const char *key, bool priv, const char *alg, int how) {
  set_provider(prov); Set set;
  if (how) { set.s = lib([] { return jwks_create(nullptr); }); T->step("create-empty", set.s != nullptr, ""); if (!set.s) return; }
  const jwk_item_t *it = load(set, jwk_for(key, priv, alg), how, "load");
  if (it && !jwks_item_error(it) && jwks_item_pem(it)) T->step("pem", true, std::to_string(strlen(jwks_item_pem(it)) > 0));
}

// random builder histories (the C10 operation alphabet) under fault injection: the seed picks the histories
static std::string norm_token_any(const char *tok) {
  if (!tok) return "NULL";
  std::string t(tok); TokParts tp = split_token(t); std::string an; bool ha = header_alg(tp, an); const AlgInfo *ai = ha ? alg_by_name(an) : nullptr;
  if (!ai || !(ai->kind == K_EC || ai->pss)) return t;
  bool valid = false; for (auto &e : vo::keytab()) if (e.k->kind == ai->kind && ref_valid(*e.k, t)) valid = true;
  return tp.signing_input + ".<" + (valid ? "valid-signature" : "INVALID-SIGNATURE") + ">";
}
static void scen_history(int prov, std::vector<vo::BOp> ops) {
  set_provider(prov); set_now(1700000000);
  vo::BExec *x = nullptr; libv([&] { x = new vo::BExec(); });
  struct Guard { vo::BExec *&x; ~Guard() { if (x) libv([&] { delete x; x = nullptr; }); } } g{x};
  T->step("builder_new", x->b != nullptr, "");
  if (!x->b) return;
  int i = 0;
  int gens = 0;
  for (auto &o : ops) {
    // the callback's invocation counter is harness state: tie it to the position in the history, so that a generate that fails
    // before reaching the callback (injected fault) does not make every later token differ for a reason outside the library
    if (o.k % vo::B_N == vo::B_GEN) x->cx.count = gens++;
    vo::BResult r; libv([&] { r = vo::apply(*x, o); });
    std::string label = std::string(vo::BN[o.k % vo::B_N]) + "#" + std::to_string(i++);
    if (r.is_gen) { std::string nt = r.null ? "NULL" : norm_token_any(r.token.c_str()); T->step(label, !r.null, nt); libv([&] { jwt_builder_error_clear(x->b); }); }
    else { int k = o.k % vo::B_N; bool setter = k == vo::B_HSET || k == vo::B_CSET; T->step(label, setter ? (r.code == 0 || r.code == JWT_VALUE_ERR_EXIST) : true, std::to_string(r.code)); }
  }
}

static void build_scenarios(bool thorough) {
  struct KA { const char *key; const char *attr; jwt_alg_t expl; };
  const KA kas[] = {{nullptr, nullptr, JWT_ALG_NONE}, {"oct64", nullptr, JWT_ALG_HS256}, {"oct64", "HS512", JWT_ALG_NONE}, {"ec_p256", "ES256", JWT_ALG_NONE}, {"rsa_2048", nullptr, JWT_ALG_RS256}, {"rsa_2048", "PS256", JWT_ALG_NONE}, {"ed25519", nullptr, JWT_ALG_EDDSA}, {"ec_p521", nullptr, JWT_ALG_ES512}, {"ed448", "EdDSA", JWT_ALG_EDDSA}, {"ec_p384", nullptr, JWT_ALG_ES384}};
  int nka = thorough ? 10 : 7;
  for (int prov = 0; prov < 2; prov++) {
    for (int i = 0; i < nka; i++) for (int cb = 0; cb < 2; cb++) {
      if (!thorough && cb && i > 3) continue;
      const KA &k = kas[i]; std::string nm = std::string("builder/") + prov_name(prov) + "/" + (k.key ? k.key : "nokey") + "/" + (k.attr ? k.attr : "-") + "/" + (k.expl ? jwt_alg_str(k.expl) : "none") + (cb ? "/mutating-cb" : "");
      SC.push_back({nm, [=] { scen_builder(prov, k.key, k.attr, k.expl, cb ? 1 : 0); }});
    }
    for (int i = 0; i < nka; i++) for (int tk = 0; tk < 8; tk++) {
      const KA &k = kas[i]; int cb = (tk + i) % 2 ? 2 : 0;
      if (!thorough && tk > 1 && i > 2) continue;
      std::string nm = std::string("checker/") + prov_name(prov) + "/" + (k.key ? k.key : "nokey") + "/" + (k.attr ? k.attr : "-") + "/" + (k.expl ? jwt_alg_str(k.expl) : "none") + "/token" + std::to_string(tk) + (cb ? "/reading-cb" : "");
      SC.push_back({nm, [=] { scen_checker(prov, k.key, k.attr, k.expl, cb, tk); }});
    }
    for (int i = 0; i < (thorough ? 7 : 3); i++) for (int tk : {2, 3}) {   // tokens that fail on their claims only + a callback that edits those claims
      const KA &k = kas[i]; std::string nm = std::string("checker/") + prov_name(prov) + "/" + (k.key ? k.key : "nokey") + "/" + (k.attr ? k.attr : "-") + "/" + (k.expl ? jwt_alg_str(k.expl) : "none") + "/token" + std::to_string(tk) + "/claim-editing-cb";
      SC.push_back({nm, [=] { scen_checker(prov, k.key, k.attr, k.expl, 3, tk); }});
    }
    SC.push_back({std::string("keyring/") + prov_name(prov), [=] { scen_keyring(prov); }});
    { int nh = thorough ? 250 : 5;
      for (int h = 0; h < nh; h++) { Rng rng(G_SEED * 1009 + h * 2 + prov); std::vector<vo::BOp> ops; int len = 5 + (int)rng.below(9);
        static const int W[] = {vo::B_HSET, vo::B_HSET, vo::B_HDEL, vo::B_CSET, vo::B_CSET, vo::B_CSET, vo::B_CDEL, vo::B_IAT, vo::B_OFFSET, vo::B_OFFSET, vo::B_SETKEY, vo::B_SETKEY, vo::B_SETKEY, vo::B_SETCB, vo::B_SETCB, vo::B_GEN, vo::B_GEN, vo::B_GEN};
        for (int i = 0; i < len; i++) { vo::BOp o; o.k = W[rng.below(18)]; o.a = (int)rng.below(4096); o.b = (int)rng.below(4096); o.c = (int)rng.below(4); ops.push_back(o); }
        vo::BOp g; g.k = vo::B_GEN; ops.push_back(g);
        std::string nm = std::string("history/") + prov_name(prov) + "/seed" + std::to_string(G_SEED) + "-" + std::to_string(h) + ":"; for (auto &o : ops) nm += vo::bop_str(o) + ";";
        SC.push_back({nm, [=] { scen_history(prov, ops); }}); } }
    const char *lk[] = {"oct64", "rsa_2048", "ec_p256", "ed25519", "ec_k256", "ed448"};
    for (const char *k : lk) for (int priv = 0; priv < 2; priv++) for (int how = 0; how < 3; how++) {
      if (!thorough && (prov == 1 || (how && priv))) continue;
      SC.push_back({std::string("load/") + prov_name(prov) + "/" + k + (priv ? "/priv" : "/pub") + "/how" + std::to_string(how), [=] { scen_load(prov, k, priv, !strcmp(k, "rsa_2048") ? "PS256" : nullptr, how); }});
    }
  }
}

// ------------------------------------------------------------------ running
static size_t g_first_div = 0;
static std::vector<std::string> run_scen(const Scen &s, const std::vector<std::string> *base, bool *diverged, bool cont = false) {
  Tr tr; tr.base = base; tr.cont = cont; T = &tr; g_count = 0; g_armed = false; g_cur_scen = s.name;
  try { s.run(); } catch (Stop &) {}
  g_armed = false; if (diverged) *diverged = tr.diverged; g_first_div = tr.first_div; return tr.e;
}

static std::map<void *, std::string> SYM;
static std::string chain_of(void **bt, int n) {
  // root-cause key: the jansson API function libjwt called (if the request came from inside jansson) + up to 4 libjwt frames
  std::string jentry; std::vector<std::string> lj;
  for (int i = 0; i < n && lj.size() < 4; i++) {
    auto it = SYM.find(bt[i]);
    if (it == SYM.end()) { char buf[1024]; __sanitizer_symbolize_pc((char *)bt[i] - 1, "%f|%s|%m", buf, sizeof buf); it = SYM.emplace(bt[i], buf).first; }
    if (getenv("C17_DEBUG")) fprintf(stderr, "frame %d: %s\n", i, it->second.c_str());
    std::string f = it->second; size_t p1 = f.find('|'), p2 = f.find('|', p1 + 1); std::string fn = f.substr(0, p1), file = f.substr(p1 + 1, p2 - p1 - 1), mod = f.substr(p2 + 1);
    if (fn.rfind("fi_malloc", 0) == 0 || fn == "jwt_malloc" || fn.find("backtrace") != std::string::npos || fn.find("interceptor") != std::string::npos) continue;
    if (file.find("/verif/") != std::string::npos || fn == "main") break;
    if (mod.find("libjansson") != std::string::npos) { if (lj.empty() && !fn.empty() && fn != "<null>" && fn != "??") jentry = fn; continue; }
    if (file.find("/libjwt/") != std::string::npos) lj.push_back(fn);
  }
  std::string chain = jentry.empty() ? "" : "jansson!" + jentry;
  for (auto &x : lj) chain += (chain.empty() ? "" : "<") + x;
  return chain.empty() ? "nochain" : chain;
}

struct ChildRes { bool crashed = false; int status = 0; std::vector<std::string> tr; bool diverged = false; size_t first_div = 0; void *bt[40]; int btn = 0; std::string err; };
static ChildRes run_child(const Scen &s, const std::vector<std::string> &base, long k, const std::string &errfile, bool cont = false) {
  ChildRes r; int fds[2]; if (pipe(fds)) { r.crashed = true; return r; }
  fflush(nullptr);
  pid_t p = fork();
  if (p == 0) {
    close(fds[0]); int ef = open(errfile.c_str(), O_WRONLY | O_CREAT | O_TRUNC, 0644); if (ef >= 0) { dup2(ef, 2); close(ef); }
    alive() = false;   // the parent's death callback / stats do not belong to the child
    g_btfd = open((errfile + ".bt").c_str(), O_WRONLY | O_CREAT | O_TRUNC, 0644);
    g_fail_at = k; bool div = false; std::vector<std::string> tr = run_scen(s, &base, &div, cont);
    std::string out; out += div ? "D\n" : "S\n"; out += std::to_string(g_first_div) + "\n"; out += std::to_string(g_btn) + "\n"; for (int i = 0; i < g_btn; i++) { char b[32]; snprintf(b, sizeof b, "%p\n", g_bt[i]); out += b; }
    for (auto &e : tr) { out += std::to_string(e.size()) + "\n" + e + "\n"; }
    size_t off = 0; while (off < out.size()) { ssize_t w = write(fds[1], out.data() + off, out.size() - off); if (w <= 0) break; off += w; }
    close(fds[1]); _exit(0);
  }
  close(fds[1]); std::string in; char buf[65536]; ssize_t n; while ((n = read(fds[0], buf, sizeof buf)) > 0) in.append(buf, n); close(fds[0]);
  int st = 0; waitpid(p, &st, 0); r.status = st;
  if (!WIFEXITED(st) || WEXITSTATUS(st) != 0) { r.crashed = true; r.err = read_file(errfile); }
  { std::string b = read_file(errfile + ".bt"); if (b.size() >= sizeof(int)) { int n2; memcpy(&n2, b.data(), sizeof n2); if (n2 > 0 && n2 <= 40 && b.size() >= sizeof(int) + n2 * sizeof(void *)) { r.btn = n2; memcpy(r.bt, b.data() + sizeof(int), n2 * sizeof(void *)); } } unlink((errfile + ".bt").c_str()); }
  // parse (best effort even after a crash there is nothing to parse: the transcript is written at the end)
  size_t pos = 0; auto line = [&]() { size_t q = in.find('\n', pos); std::string l = in.substr(pos, q == std::string::npos ? std::string::npos : q - pos); pos = q == std::string::npos ? in.size() : q + 1; return l; };
  if (!in.empty()) { r.diverged = line() == "D"; r.first_div = strtoul(line().c_str(), nullptr, 10); int nb = atoi(line().c_str()); for (int i = 0; i < nb; i++) line();
    while (pos < in.size()) { size_t len = strtoul(line().c_str(), nullptr, 10); r.tr.push_back(in.substr(pos, len)); pos += len + 1; } }
  return r;
}

// classify a child's result against the baseline: "" = fine
static std::string judge(const std::vector<std::string> &base, const ChildRes &c);
static std::string judge(const std::vector<std::string> &base, const ChildRes &c) {
  if (c.crashed) { std::string kind = "crash"; size_t p = c.err.find("ERROR: AddressSanitizer: "); if (c.err.find("ERROR: VerifAllocator:") != std::string::npos) kind = "pointer-not-from-installed-allocator-freed"; else if (p != std::string::npos) { kind = c.err.substr(p + 25, 40); kind = kind.substr(0, kind.find_first_of(" \n")); } else if (c.err.find("ERROR: VerifAllocator:") != std::string::npos) kind = "pointer-not-from-installed-allocator-freed"; else if (c.err.find("runtime error:") != std::string::npos) kind = "ubsan"; else if (WIFSIGNALED(c.status)) kind = "signal" + std::to_string(WTERMSIG(c.status)); return "crash:" + kind; }
  if (!c.diverged) { if (c.tr.size() != base.size()) return "transcript-length-differs"; return ""; }
  if (c.tr.size() > c.first_div + 1) {
    // continue mode: the first differing entry must be a documented failure; what follows may differ legitimately, but a
    // later verify must not accept what the baseline rejected and a later token must still carry a valid signature
    const std::string &fd = c.tr[c.first_div]; std::string frest = fd.substr(fd.find('=') + 1);
    for (size_t i = c.first_div + 1; i < c.tr.size(); i++) {
      const std::string &e = c.tr[i]; size_t eq = e.find('='); std::string label = e.substr(0, eq), rest = e.substr(eq + 1);
      if (rest.find("INVALID-SIGNATURE") != std::string::npos) return "token-with-invalid-signature-after-reported-failure";
      if (label.rfind("verify", 0) == 0 && rest.rfind("OK:", 0) == 0 && i < base.size() && base[i].substr(0, base[i].find('=')) == label && base[i].find("=FAIL:") != std::string::npos) return "accepts-token-it-rejects-without-fault-after-reported-failure";
    }
    if (frest.rfind("FAIL:", 0) == 0) return "";
    // fall through: judge the first differing entry like in stop mode
    ChildRes c2 = c; c2.tr.resize(c.first_div + 1); return judge(base, c2);
  }
  // diverged: everything before the last entry equals the baseline by construction; the last one must be a documented failure
  const std::string &last = c.tr.back(); size_t eq = last.find('='); std::string label = last.substr(0, eq), rest = last.substr(eq + 1);
  if (rest.rfind("FAIL:", 0) == 0) return "";
  const std::string &b = c.tr.size() <= base.size() ? base[c.tr.size() - 1] : last; std::string brest = b.substr(b.find('=') + 1);
  if (label.rfind("verify", 0) == 0 && brest.rfind("FAIL:", 0) == 0) return "accepts-token-it-rejects-without-fault";
  if (label.rfind("generate", 0) == 0) return rest.find("INVALID-SIGNATURE") != std::string::npos ? "token-with-invalid-signature" : "token-differs-from-fault-free-run";
  return "success-with-different-result";
}

int main(int argc, char **argv) {
  Args a = parse_args(argc, argv);
  POOLP = new Pool(standard_pool()); vo::init_keys(false); G_SEED = a.seed; G_CONT_ALL = a.thorough();
  jwt_set_alloc(fi_malloc, fi_free);
  build_scenarios(a.thorough());
  Stats &st = stats();
  std::string errfile = (a.out.empty() ? std::string("/tmp/c17") : a.out) + ".childerr";
  std::function<std::string(size_t, long, const std::vector<std::string> &, bool, bool)> one;
  one = [&](size_t si, long k, const std::vector<std::string> &base, bool count, bool cont) -> std::string {
    ChildRes c = run_child(SC[si], base, k, errfile, cont);
    std::string j = judge(base, c);
    std::string chain = c.btn ? chain_of((void **)c.bt, c.btn) : "failing-request-not-reached";
    if (count) { st.evaluations++; st.cls(std::string(cont ? "continue-mode:" : "outcome:") + (c.crashed ? "crash" : !c.diverged ? "same-as-fault-free" : j.empty() ? "clean-failure" : "violation")); st.nontrivial(mix(fnv(SC[si].name.substr(0, SC[si].name.find('/', 8))), fnv(chain))); }
    if (j.empty() && !cont && c.diverged && !c.crashed && (G_CONT_ALL || (k & 1))) return one(si, k, base, count, true);   // the application ignores the failure and carries on
    if (j.empty()) return "";
    std::string sig = "C17:" + j + ":" + chain;
    std::string rj = "{\"mode\":\"" + std::string(cont ? "continue" : "stop") + "\",\"scenario\":" + jstr(SC[si].name) + ",\"scenario_index\":" + std::to_string(si) + ",\"fault_index\":" + std::to_string(k) + ",\"failing_allocation\":" + jstr(chain) + ",\"child_last_entry\":" + jstr(c.tr.empty() ? "" : c.tr.back().substr(0, 600)) + ",\"baseline_entry\":" + jstr(c.tr.empty() || c.tr.size() > base.size() ? "" : base[c.tr.size() - 1].substr(0, 600)) + ",\"stderr_tail\":" + jstr(c.err.substr(0, 1500)) + "}";
    if (count) { if (st.violation(sig, "single allocation failure: " + j + " (failing request: " + chain + ")", rj)) {} }
    return sig;
  };
  if (!a.replay.empty()) {
    J j = J::parse(read_file(a.replay)); if (!j) return 2;
    std::string name = json_string_value(json_object_get(j.p, "scenario")); long k = (long)json_integer_value(json_object_get(j.p, "fault_index"));
    { size_t sp = name.find("/seed"); if (name.rfind("history/", 0) == 0 && sp != std::string::npos) { G_SEED = strtoull(name.c_str() + sp + 5, nullptr, 10); SC.clear(); build_scenarios(true); } }
    if (a.kv.count("all")) {}
    for (size_t si = 0; si < SC.size(); si++) if (SC[si].name == name) { std::vector<std::string> base = run_scen(SC[si], nullptr, nullptr); if (k == 0) return stats().violations.empty() ? 0 : 3; G_CONT_ALL = true; std::string r = one(si, k, base, false, false); if (!r.empty()) fprintf(stderr, "replay: %s\n", r.c_str()); return r.empty() ? 0 : 3; }
    // thorough-only scenario replayed in quick mode: build the full catalogue
    SC.clear(); build_scenarios(true);
    for (size_t si = 0; si < SC.size(); si++) if (SC[si].name == name) { std::vector<std::string> base = run_scen(SC[si], nullptr, nullptr); if (k == 0) return stats().violations.empty() ? 0 : 3; G_CONT_ALL = true; std::string r = one(si, k, base, false, false); return r.empty() ? 0 : 3; }
    return 2;
  }
  long total = 0; std::string per;
  for (size_t si = 0; si < SC.size(); si++) {
    std::vector<std::string> base = run_scen(SC[si], nullptr, nullptr); long N = g_count;
    // the baseline must be reproducible, otherwise the scenario cannot be judged
    { std::vector<std::string> b2 = run_scen(SC[si], nullptr, nullptr); if (b2 != base || g_count != N) { st.cls("scenario-not-deterministic-skipped"); continue; } }
    total += N; if (a.worker == 0) per += (per.empty() ? "" : ",") + jstr(SC[si].name) + ":" + std::to_string(N);
    for (long k = 1; k <= N; k++) { if ((int)((k + si) % a.nworkers) != a.worker) continue; one(si, k, base, true, false); }
    if (a.worker == 0 && st.samples.size() < st.sample_cap && (si % 9) == 0) st.sample("{\"scenario\":" + jstr(SC[si].name) + ",\"allocations\":" + std::to_string(N) + ",\"baseline_transcript_head\":" + jstr(base.empty() ? "" : base[0].substr(0, 200)) + ",\"steps\":" + std::to_string(base.size()) + "}");
  }
  if (a.worker == 0) { st.extra["scenarios"] = std::to_string(SC.size()); st.extra["fault_indices_total"] = std::to_string(total); st.extra["allocations_per_scenario"] = "{" + per + "}"; }
  unlink(errfile.c_str());
  return finish();
}
