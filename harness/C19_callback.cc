// C19 - a verification callback can observe but not bend the verdict: metamorphic test
// verdict(with token-mutating callback) == verdict(without), + failing callbacks, + callback-selected key/alg.
#include <rapidcheck.h>
#include "vops.h"
using namespace v; using namespace vo;
template <typename T> static rc::Gen<T> UNI(T lo, T hi) { return rc::gen::resize(100, rc::gen::inRange<T>(lo, hi)); }

enum { P_CSET, P_CDEL, P_CCLEAR, P_HSET, P_HDEL, P_HCLEAR, P_CJSON, P_HJSON, P_CGET, P_HGET, P_N };   // appended: typed reads (of the right and of the wrong type, of absent members)
static const char *PN[] = {"claim_set", "claim_del", "claim_del_all", "header_set", "header_del", "header_del_all", "claims_json_replace", "headers_json_replace", "claim_get", "header_get"};
struct POp { int k, a, b; };
static const char *NAMES[] = {"exp", "nbf", "iss", "sub", "aud", "alg", "typ", "zz"};
static const long NOW = 1700000000;
struct PV { int vt; long i; const char *s; };
static const PV PVALS[] = {{1, NOW + 1000, 0}, {1, NOW - 1000, 0}, {1, 0, 0}, {2, 0, "issuer"}, {2, 0, "subject"}, {2, 0, "audience"}, {2, 0, "other"}, {2, 0, "none"}, {2, 0, "HS256"}, {3, 1, 0}, {4, 0, "[1]"}};
static const int NPV = 11;
// values the setters refuse (INVALID): second argument values 48..63 select them (the first table keeps its meaning below that)
static const PV PBAD[] = {{2, 0, nullptr}, {4, 0, "{\"unterminated\":"}, {4, 0, "5"}, {4, 0, "{\"a\":1,\"a\":2}"}, {4, 0, ""}, {4, 0, nullptr}, {9, 0, "x"}, {2, 0, "\xff\xfe"}};
static const int NPBAD = 8;
static const PV &pval(int b) { return b >= 48 ? PBAD[(b - 48) % NPBAD] : PVALS[b % NPV]; }
static const char *WHOLE[] = {"{\"exp\":4000000000,\"nbf\":0,\"iss\":\"issuer\",\"sub\":\"subject\",\"aud\":\"audience\"}", "{}", "{\"exp\":1}", "{\"alg\":\"none\"}", "{\"iss\":\"other\",\"zz\":[1,2]}"};

struct Prog { std::vector<POp> ops; int ret; };
static Prog *G_PROG = nullptr; static bool G_RAN = false;
static int mut_cb(jwt_t *jwt, jwt_config_t *) {
  G_RAN = true;
  for (auto &o : G_PROG->ops) {
    const char *n = NAMES[o.a % 8]; const PV &pv = pval(o.b); jwt_value_t v;
    switch (pv.vt) { case 1: v = val_int(n, pv.i, 1); break; case 2: v = val_str(n, pv.s, 1); break; case 3: v = val_bool(n, 1, 1); break; case 9: v = val_str(n, pv.s, 1); v.type = (jwt_value_type_t)77; break; default: v = val_json(n, pv.s, 1); }
    switch (o.k % P_N) {
    case P_CSET: jwt_claim_set(jwt, &v); break; case P_CDEL: jwt_claim_del(jwt, n); break; case P_CCLEAR: jwt_claim_del(jwt, NULL); break;
    case P_HSET: jwt_header_set(jwt, &v); break; case P_HDEL: jwt_header_del(jwt, n); break; case P_HCLEAR: jwt_header_del(jwt, NULL); break;
    case P_CJSON: { jwt_claim_del(jwt, NULL); jwt_value_t w = val_json(NULL, WHOLE[o.b % 5], 1); jwt_claim_set(jwt, &w); break; }
    case P_CGET: case P_HGET: { jwt_value_type_t ty = (jwt_value_type_t)(1 + o.b % 4); jwt_value_t g = val_get(ty, (o.b % 11 == 10) ? NULL : n); if ((o.k % P_N) == P_CGET) jwt_claim_get(jwt, &g); else jwt_header_get(jwt, &g); if (ty == JWT_VALUE_JSON && g.json_val) free(g.json_val); break; }
    case P_HJSON: { jwt_header_del(jwt, NULL); jwt_value_t w = val_json(NULL, WHOLE[o.b % 5], 1); jwt_header_set(jwt, &w); break; }
    }
  }
  return G_PROG->ret;
}

static int idle_cb(jwt_t *, jwt_config_t *) { return 0; }
// checker configuration
struct Cfg { int key; /* -1 none, 1 oct64/HS256, 4 ec pub/ES256 */ bool iss, sub, aud; long exp_lee, nbf_lee; };
// token spec
struct Tok { int expk, nbfk, issk, subk, audk; bool badsig; };  // k: 0 absent 1 passing 2 failing 3 wrong type
static std::string build_token(const Cfg &c, const Tok &t) {
  std::string p = "{\"k\":1";
  auto tc = [&](const char *n, int k, long pass, long fail) { if (k == 1) p += std::string(",\"") + n + "\":" + std::to_string(pass); else if (k == 2) p += std::string(",\"") + n + "\":" + std::to_string(fail); else if (k == 3) p += std::string(",\"") + n + "\":\"x\""; };
  tc("exp", t.expk, NOW + 100, NOW - 100); tc("nbf", t.nbfk, NOW - 100, NOW + 100);
  auto sc = [&](const char *n, int k, const char *pass) { if (k == 1) p += std::string(",\"") + n + "\":\"" + pass + "\""; else if (k == 2) p += std::string(",\"") + n + "\":\"other\""; else if (k == 3) p += std::string(",\"") + n + "\":7"; };
  sc("iss", t.issk, "issuer"); sc("sub", t.subk, "subject"); sc("aud", t.audk, "audience");
  p += "}";
  std::string tok;
  if (c.key < 0) tok = ref_token(*keytab()[0].k, JWT_ALG_NONE, "{\"alg\":\"none\"}", p);
  else { const KeyEnt &e = keytab()[c.key]; tok = ref_token(*e.k, e.attr_alg, std::string("{\"alg\":\"") + jwt_alg_str(e.attr_alg) + "\",\"typ\":\"JWT\"}", p); }
  if (t.badsig && c.key >= 0) { size_t pos = tok.size() - 3; tok[pos] = tok[pos] == 'A' ? 'B' : 'A'; }
  return tok;
}
static jwt_checker_t *make_checker(const Cfg &c) {
  jwt_checker_t *ch = jwt_checker_new();
  if (c.key >= 0) jwt_checker_setkey(ch, JWT_ALG_NONE, keytab()[c.key].lk->item);
  if (c.iss) jwt_checker_claim_set(ch, JWT_CLAIM_ISS, "issuer"); if (c.sub) jwt_checker_claim_set(ch, JWT_CLAIM_SUB, "subject"); if (c.aud) jwt_checker_claim_set(ch, JWT_CLAIM_AUD, "audience");
  jwt_checker_time_leeway(ch, JWT_CLAIM_EXP, c.exp_lee); jwt_checker_time_leeway(ch, JWT_CLAIM_NBF, c.nbf_lee);
  return ch;
}

struct Case { int prov; Cfg c; Tok t; Prog p; int dirty = 0; };   // dirty: the checker is reused after 1 a failed verify (malformed token), 2 a failed verify (bad signature / unsigned), 3 a refused setkey
static Case CUR; static std::string TOKEN;
static std::string case_json(const Case &x) {
  std::string ops = "[", rd = "[";
  for (size_t i = 0; i < x.p.ops.size(); i++) { auto &o = x.p.ops[i]; ops += (i ? "," : "") + std::string("[") + std::to_string(o.k) + "," + std::to_string(o.a) + "," + std::to_string(o.b) + "]";
    const PV &pv = pval(o.b); rd += (i ? "," : "") + jstr(std::string(PN[o.k % P_N]) + "(" + NAMES[o.a % 8] + "," + (pv.vt == 1 ? std::to_string(pv.i) : pv.s ? pv.s : "true") + ")"); }
  return "{\"prov\":" + std::to_string(x.prov) + ",\"cfg\":[" + std::to_string(x.c.key) + "," + std::to_string(x.c.iss) + "," + std::to_string(x.c.sub) + "," + std::to_string(x.c.aud) + "," + std::to_string(x.c.exp_lee) + "," + std::to_string(x.c.nbf_lee) + "],\"tok\":[" +
         std::to_string(x.t.expk) + "," + std::to_string(x.t.nbfk) + "," + std::to_string(x.t.issk) + "," + std::to_string(x.t.subk) + "," + std::to_string(x.t.audk) + "," + std::to_string(x.t.badsig) + "],\"dirty\":" + std::to_string(x.dirty) + ",\"cb_ret\":" + std::to_string(x.p.ret) + ",\"ops\":" + ops + "],\"callback_program\":" + rd + "],\"token\":" + jstr(TOKEN) + "}";
}

// returns violated clause or ""; nt set when the program touches something an enabled check reads and the verdict hinges on it
static std::string run_case(const Case &x, bool *nt = nullptr, int *v0out = nullptr) {
  CUR = x; set_provider(x.prov); set_now(NOW);
  TOKEN = build_token(x.c, x.t);
  // both checkers have the same past: an application reuses a checker that reported a failure before, without clearing it
  auto dirty = [&](jwt_checker_t *ch) {
    if (x.dirty == 1) jwt_checker_verify(ch, "not-a-token");
    else if (x.dirty == 2) { Tok bt = x.t; bt.badsig = true; std::string t = x.c.key >= 0 ? build_token(x.c, bt) : std::string("eyJhbGciOiJIUzI1NiJ9.e30.AAAA"); jwt_checker_verify(ch, t.c_str()); }
    else if (x.dirty == 3) jwt_checker_setkey(ch, JWT_ALG_INVAL, nullptr);
  };
  jwt_checker_t *a = make_checker(x.c); dirty(a); int v0 = jwt_checker_verify(a, TOKEN.c_str()); jwt_checker_free(a);
  jwt_checker_t *b = make_checker(x.c); Prog p = x.p; G_PROG = &p; G_RAN = false; jwt_checker_setcb(b, mut_cb, nullptr); dirty(b); G_RAN = false;
  int v1 = jwt_checker_verify(b, TOKEN.c_str()); int e1 = jwt_checker_error(b); jwt_checker_free(b);
  bool ran1 = G_RAN;
  // the same callback installed OVER another one (first an idle callback with its own context, then this one with a context):
  // the callback set last is the one that runs
  { jwt_checker_t *c3 = make_checker(x.c); static int idle_ctx = 0, ctx2 = 0; jwt_checker_setcb(c3, idle_cb, &idle_ctx); Prog p3 = x.p; G_PROG = &p3; jwt_checker_setcb(c3, mut_cb, &ctx2); dirty(c3); G_RAN = false;
    int v3 = jwt_checker_verify(c3, TOKEN.c_str()); bool ran3 = G_RAN; jwt_checker_free(c3); G_PROG = &p;
    if (ran3 != ran1) return "callback-installed-over-another-one-does-not-run";
    if ((v3 == 0) != (v1 == 0)) return "verdict-differs-when-the-callback-replaced-another-one"; }
  G_RAN = ran1;
  if (v0out) *v0out = v0;
  if (nt) {
    *nt = false;
    for (auto &o : x.p.ops) { int k = o.k % P_N; const char *n = NAMES[o.a % 8]; bool whole = k == P_CCLEAR || k == P_CJSON;
      bool claimop = k == P_CSET || k == P_CDEL || whole;
      if (claimop && (whole || (!strcmp(n, "exp") && x.c.exp_lee >= 0) || (!strcmp(n, "nbf") && x.c.nbf_lee >= 0) || (!strcmp(n, "iss") && x.c.iss) || (!strcmp(n, "sub") && x.c.sub) || (!strcmp(n, "aud") && x.c.aud))) *nt = true;
      if (!claimop && (k == P_HCLEAR || k == P_HJSON || !strcmp(n, "alg"))) *nt = true; }
  }
  if (x.p.ret != 0) { if (G_RAN && v1 == 0) return "verify-succeeds-although-callback-returned-error"; if (G_RAN && !e1) return "callback-error-not-flagged"; return ""; }
  if ((v0 == 0) != (v1 == 0)) return std::string("callback-edits-change-verdict:") + (v1 == 0 ? "accepts-token-it-rejects-without-callback" : "rejects-token-it-accepts-without-callback");
  return "";
}

// callback-selected (alg,key) vs setkey: same admission, same verdict.
// mode 0: no setkey, the callback sets key and alg; mode 1: setkey(none, key) first (key with alg attribute), the callback
// changes only the alg; mode 2: setkey(none, other key) first, the callback replaces only the key (alg untouched)
struct SelCtx { const jwk_item_t *key; jwt_alg_t alg; int mode; };
static int sel_cb(jwt_t *, jwt_config_t *c) { SelCtx *s = (SelCtx *)c->ctx; if (s->mode != 1) c->key = s->key; if (s->mode != 2) c->alg = s->alg; return 0; }
// keys of the select grid: the shared key table, then keys whose JWK carries use / key_ops members in every combination (whatever role
// those members play in admission, it must be the same for setkey and for a key the callback selects)
struct SelKey { const jwk_item_t *item; const KeySpec *k; jwt_alg_t attr_alg; };
static std::vector<std::unique_ptr<LKey>> &EXTRA = *new std::vector<std::unique_ptr<LKey>>; static std::vector<SelKey> &EXTRA_K = *new std::vector<SelKey>;
static void init_extra() {
  if (!EXTRA.empty()) return;
  struct UO { const char *key; const char *alg; const char *use; const char *ops; bool priv; };
  static const UO uo[] = {{"oct64", "HS256", "enc", "", true}, {"oct64", "", "enc", "[\"encrypt\",\"decrypt\"]", true}, {"ec_p256", "ES256", "enc", "", false}, {"ec_p256", "ES256", "sig", "[\"verify\"]", false},
                          {"ec_p256", "", "enc", "[\"verify\"]", false}, {"rsa_2048", "RS256", "enc", "[\"wrapKey\",\"unwrapKey\"]", false}, {"rsa_2048", "PS256", "sig", "[\"sign\"]", false}, {"ed25519", "EdDSA", "", "[\"deriveKey\",\"deriveBits\"]", false},
                          {"oct64", "HS512", "sig", "[\"sign\",\"verify\"]", true}, {"ec_p256", "ES256", "enc", "[\"encrypt\"]", true}};
  for (auto &u : uo) { const KeySpec &k = vo::pool().get(u.key); JwkOpts o; o.priv = u.priv || k.kind == K_OCT; o.alg = u.alg; o.use = u.use; o.key_ops = u.ops;
    auto lk = std::make_unique<LKey>(jwk_json(k, o)); if (!lk->item) continue; EXTRA_K.push_back({lk->item, &k, *u.alg ? jwt_str_alg(u.alg) : JWT_ALG_NONE}); EXTRA.push_back(std::move(lk)); }
}
static int n_sel_keys() { init_extra(); return (int)keytab().size() + (int)EXTRA_K.size(); }
static SelKey sel_key(int key) { init_extra(); if (key < (int)keytab().size()) return {keytab()[key].lk->item, keytab()[key].k, keytab()[key].attr_alg}; return EXTRA_K[key - keytab().size()]; }
static std::string run_select(int prov, int key, int algi, int tokkind, std::string *desc, int mode = 0) {
  set_provider(prov); set_now(NOW);
  SelKey sk = key < 0 ? SelKey{nullptr, nullptr, JWT_ALG_NONE} : sel_key(key);
  const jwk_item_t *item = sk.item; jwt_alg_t alg = ALGCH[algi % NALGCH];
  // token: signed by that key with alg (if possible), or by HS256/oct64, or none
  std::string tok;
  if (tokkind == 0 && key >= 0) { jwt_alg_t ta = alg != JWT_ALG_NONE ? alg : sk.attr_alg; if (ta == JWT_ALG_NONE || ta >= JWT_ALG_INVAL) ta = JWT_ALG_HS256; tok = ref_token(*sk.k, ta, std::string("{\"alg\":\"") + jwt_alg_str(ta) + "\"}", "{}"); }
  else if (tokkind == 1) tok = ref_token(*keytab()[0].k, JWT_ALG_HS256, "{\"alg\":\"HS256\"}", "{}");
  else tok = ref_token(*keytab()[0].k, JWT_ALG_NONE, "{\"alg\":\"none\"}", "{}");
  if (tok.find("..") != std::string::npos && tokkind == 0) tok = ref_token(*keytab()[0].k, JWT_ALG_NONE, "{\"alg\":\"none\"}", "{}");
  *desc = "{\"kind\":\"select\",\"prov\":" + std::to_string(prov) + ",\"key\":" + std::to_string(key) + ",\"algi\":" + std::to_string(algi) + ",\"tokkind\":" + std::to_string(tokkind) + ",\"mode\":" + std::to_string(mode) + ",\"token\":" + jstr(tok) + "}";
  // reference: the final (alg, key) pair handed to setkey on a fresh checker
  jwt_alg_t final_alg = alg; const jwk_item_t *final_key = item;
  const jwk_item_t *pre = nullptr;
  if (mode == 1) { if (!item) return ""; pre = item; }                                  // checker already holds the key; the callback sets alg
  if (mode == 2) { pre = keytab()[1].lk->item; final_alg = JWT_ALG_NONE; }             // checker holds oct64/HS256 with alg none; the callback swaps the key
  jwt_checker_t *a = jwt_checker_new(); int sr = jwt_checker_setkey(a, final_alg, final_key); int va = sr ? 1 : jwt_checker_verify(a, tok.c_str()); jwt_checker_free(a);
  jwt_checker_t *b = jwt_checker_new();
  if (pre && jwt_checker_setkey(b, JWT_ALG_NONE, pre)) { jwt_checker_free(b); return ""; }   // the preparatory setkey itself is refused (key without alg attribute): cell does not exist
  SelCtx sc{item, alg, mode}; jwt_checker_setcb(b, sel_cb, &sc); int vb = jwt_checker_verify(b, tok.c_str()); jwt_checker_free(b);
  if (sr && vb == 0) return std::string("callback-selected-pair-refused-by-setkey-but-verifies:mode") + std::to_string(mode);
  if (!sr && (va == 0) != (vb == 0)) return std::string("callback-selected-pair-verdict-differs-from-setkey:mode") + std::to_string(mode);
  return "";
}

int main(int argc, char **argv) {
  Args a = parse_args(argc, argv);
  init_keys(false);
  cur_case() = [] { return case_json(CUR); };
  Stats &st = stats();
  if (!a.replay.empty()) {
    J j = J::parse(read_file(a.replay)); if (!j) return 2;
    auto gi = [&](json_t *arr, int i) { return (long)json_integer_value(json_array_get(arr, i)); };
    if (json_object_get(j.p, "kind")) { std::string d; std::string r = run_select((int)json_integer_value(json_object_get(j.p, "prov")), (int)json_integer_value(json_object_get(j.p, "key")), (int)json_integer_value(json_object_get(j.p, "algi")), (int)json_integer_value(json_object_get(j.p, "tokkind")), &d, (int)json_integer_value(json_object_get(j.p, "mode"))); return r.empty() ? 0 : 3; }
    Case x; x.prov = (int)json_integer_value(json_object_get(j.p, "prov")); json_t *c = json_object_get(j.p, "cfg"), *t = json_object_get(j.p, "tok");
    x.c = {(int)gi(c, 0), gi(c, 1) != 0, gi(c, 2) != 0, gi(c, 3) != 0, gi(c, 4), gi(c, 5)}; x.t = {(int)gi(t, 0), (int)gi(t, 1), (int)gi(t, 2), (int)gi(t, 3), (int)gi(t, 4), gi(t, 5) != 0};
    x.dirty = (int)json_integer_value(json_object_get(j.p, "dirty")); x.p.ret = (int)json_integer_value(json_object_get(j.p, "cb_ret")); size_t i; json_t *e; json_array_foreach(json_object_get(j.p, "ops"), i, e) x.p.ops.push_back({(int)gi(e, 0), (int)gi(e, 1), (int)gi(e, 2)});
    std::string r = run_case(x); if (!r.empty()) fprintf(stderr, "replay: %s\n", r.c_str());
    return r.empty() ? 0 : 3;
  }
  // (3) exhaustive small grid: callback-selected (alg,key) vs setkey
  { int idx = 0;
    for (int prov = 0; prov < 2; prov++) for (int key = -1; key < n_sel_keys(); key++) for (int algi = 0; algi < NALGCH; algi++) for (int tk = 0; tk < 3; tk++) for (int mode = 0; mode < 3; mode++) {
      if ((idx++ % a.nworkers) != a.worker) continue;
      std::string d, r = run_select(prov, key, algi, tk, &d, mode); st.evaluations++; st.cls("select-cells"); st.nontrivial_distinct();
      if (!r.empty()) st.violation("C19:" + r, "a key/alg selected by the callback is not treated like the same pair given to setkey", d);
    } }
  uint64_t n = a.thorough() ? 60000 : 2500;
  std::string params = "seed=" + std::to_string(a.seed * 1000 + a.worker) + " max_success=" + std::to_string(n) + " max_size=100";
  setenv("RC_PARAMS", params.c_str(), 1);
  Case lastfail; std::string lastwhy;
  bool ok = rc::check("C19: callback cannot bend the verdict", [&]() {
    if (v::shrink_exhausted()) return;
    Case x; x.prov = *UNI(0, 2);
    x.c.key = *rc::gen::element(-1, 1, 4); x.c.iss = *UNI(0, 2); x.c.sub = *UNI(0, 3) == 0; x.c.aud = *UNI(0, 3) == 0; x.c.exp_lee = *rc::gen::element(0L, 0L, -1L, 50L); x.c.nbf_lee = *rc::gen::element(0L, 0L, -1L, 50L);
    auto kk = [&]() { return *rc::gen::weightedElement<int>({{2, 0}, {5, 1}, {3, 2}, {1, 3}}); };
    x.t = {kk(), kk(), kk(), kk(), kk(), *UNI(0, 5) == 0};
    x.dirty = *rc::gen::weightedElement<int>({{4, 0}, {2, 1}, {2, 2}, {1, 3}});
    int len = *UNI(0, 9); x.p.ret = *UNI(0, 8) == 0 ? 1 + *UNI(0, 3) : 0;
    for (int i = 0; i < len; i++) x.p.ops.push_back({*UNI(0, (int)P_N), *UNI(0, 8), *UNI(0, 64)});
    bool nt = false; int v0 = 0; std::string r = run_case(x, &nt, &v0);
    st.evaluations++; st.cls(v0 == 0 ? "baseline-accept" : "baseline-reject"); if (x.p.ret) st.cls("failing-callback"); if (x.dirty) st.cls("checker-reused-after-a-failure");
    if (nt) { st.nontrivial(fnv(case_json(x))); st.cls(v0 == 0 ? "program-touches-checked-claim,token-passes" : "program-touches-checked-claim,token-fails"); }
    if (st.want_sample()) st.sample(case_json(x));
    if (!r.empty()) { std::string sig = "C19:" + r; if (st.is_known(sig)) { st.known_hits[sig]++; return; } lastfail = x; lastwhy = r; v::fail_seen()++; RC_FAIL(r); }
  });
  if (!ok && !lastwhy.empty()) { run_case(lastfail); st.violation("C19:" + lastwhy, "verdict with a token-mutating callback differs from the verdict without it", case_json(lastfail)); }
  return finish();
}
