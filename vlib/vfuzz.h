// vfuzz.h - support for libFuzzer targets: counters flushed at exit and from the sanitizer death callback,
// oracle failure reporting.
#pragma once
#define VLIB_NO_ASAN_DEFAULTS 1
#include "vlib.h"
#include "vkeys.h"

namespace vf {
using namespace v;

struct FStats {
  uint64_t evaluations = 0, nontrivial = 0;
  std::map<std::string, uint64_t> classes;
  std::unordered_set<uint64_t> fps;
  std::vector<std::string> samples;
  const unsigned char *cur = nullptr; size_t cur_len = 0;
  void cls(const char *k) { classes[k]++; }
  void nt(uint64_t fp) { nontrivial++; if (fps.size() < 400000) fps.insert(fp); }
  void dump() {
    const char *p = getenv("VERIF_FUZZ_STATS"); if (!p) return;
    FILE *f = fopen(p, "w"); if (!f) return;
    fprintf(f, "{\"evaluations\":%llu,\"nontrivial\":%llu,\"classes\":{", (unsigned long long)evaluations, (unsigned long long)nontrivial);
    bool first = true; for (auto &kv : classes) { fprintf(f, "%s%s:%llu", first ? "" : ",", jstr(kv.first).c_str(), (unsigned long long)kv.second); first = false; }
    fprintf(f, "},\"samples\":["); first = true; for (auto &s : samples) { fprintf(f, "%s%s", first ? "" : ",", s.c_str()); first = false; }
    fprintf(f, "]}\n"); fclose(f);
    std::string fp = std::string(p) + ".fp"; FILE *g = fopen(fp.c_str(), "wb"); if (g) { for (uint64_t x : fps) fwrite(&x, 8, 1, g); fclose(g); }
  }
};
inline FStats &fs() { static FStats *s = new FStats; return *s; }
inline void fdeath() { fs().dump(); }
inline void finit() {
  static bool done = false; if (done) return; done = true;
  __sanitizer_set_death_callback(fdeath);
  atexit([] { fs().dump(); });
}
// semantic oracle failed: report the clause (driver greps VERIF-ORACLE), flush counters, trap
[[noreturn]] inline void oracle_fail(const char *clause, const std::string &detail) {
  fprintf(stderr, "\nVERIF-ORACLE: %s\n%s\n", clause, detail.c_str());
  fs().dump();
  __builtin_trap();
}
inline void sample(const std::string &json) { FStats &s = fs(); if (s.samples.size() < 6 && (s.evaluations < 50 || (s.evaluations & (s.evaluations - 1)) == 0)) s.samples.push_back(json); }
}  // namespace vf
