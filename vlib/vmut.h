// vmut.h - token mutation operators (shared by C01 and C12): key pool, base tokens, 22 mutation kinds
#pragma once
#include "vlib.h"
#include "vkeys.h"
using namespace v;

static Pool POOL;
static std::vector<const KeySpec *> KEYS;
static std::map<std::string, std::unique_ptr<LKey>> LK;

static const LKey &lkey(const KeySpec &k, const std::string &attr) {
  std::string id = k.name + "|" + attr;
  auto it = LK.find(id); if (it != LK.end()) return *it->second;
  JwkOpts o; o.priv = (k.kind == K_OCT); o.alg = attr;
  auto p = std::make_unique<LKey>(jwk_json(k, o));
  if (!p->ok()) { fprintf(stderr, "import failed %s\n", id.c_str()); exit(2); }
  return *(LK[id] = std::move(p));
}

static const char *PAYLOADS[] = {"{\"sub\":\"alice\",\"admin\":false}", "{\"sub\":\"alice\",\"admin\":true}", "{\"iss\":\"x\",\"n\":12345678901234}", "{}", "{\"a\":[1,2,{\"b\":null}],\"s\":\"\\u00e9\\ud83d\\ude00\"}"};
static const int NPAY = 5;

static std::map<std::string, std::string> TOK;
static std::string base_token(const KeySpec &k, jwt_alg_t a, int pay, const char *hdr_extra = "") {
  std::string id = k.name + "/" + jwt_alg_str(a) + "/" + std::to_string(pay) + hdr_extra;
  auto it = TOK.find(id); if (it != TOK.end()) return it->second;
  std::string h = std::string("{\"alg\":\"") + jwt_alg_str(a) + "\",\"typ\":\"JWT\"" + hdr_extra + "}";
  return TOK[id] = ref_token(k, a, h, PAYLOADS[pay]);
}

struct Mut { int kind, a, b, c; };
enum { M_FLIP_CHAR, M_FLIP_BIT, M_RAW_BYTE, M_TRUNC_SIG, M_EXT_SIG, M_PAD_JUNK, M_INSERT_DOT, M_SIG_EMPTY, M_SIG_ZERO, M_SIG_RANDOM, M_SIG_WRONGLEN,
       M_SIG_OTHER_TOKEN, M_SIG_OTHER_KEY, M_SIG_OTHER_ALG, M_EC_SPECIAL, M_ED_SPLUSL, M_RSA_ZERO, M_HDR_ALG, M_PAYLOAD, M_SWAP, M_HDR_WS, M_STD_ALPHA, M_RESIGN_RANGE, M_NKINDS };
static const char *MN[] = {"flip-char", "flip-bit", "raw-byte", "trunc-sig", "ext-sig", "pad-junk", "insert-dot", "sig-empty", "sig-zero", "sig-random", "sig-wronglen",
                           "sig-of-other-token", "sig-by-other-key", "sig-by-other-alg", "ecdsa-special", "eddsa-S+L", "rsa-zero-byte", "header-alg-swap", "payload-change", "swap-parts", "header-reencode", "std-alphabet", "resigned-over-another-byte-range"};


static const KeySpec *other_key(const KeySpec &k) {
  std::string n = k.name; if (n.back() == 'b') n.pop_back(); else n += "b";
  for (auto *x : KEYS) if (x->name == n) return x;
  for (auto &x : POOL.keys) if (x.name == n) return &x;
  for (auto *x : KEYS) if (x->kind == k.kind && x != &k && x->bits == k.bits) return x;
  return nullptr;
}

static std::string order_bytes(const KeySpec &k) {
  BIGNUM *n = nullptr; std::string r;
  if (EVP_PKEY_get_bn_param(k.pkey, OSSL_PKEY_PARAM_EC_ORDER, &n)) { r = bn_bytes(n, (k.bits + 7) / 8); BN_free(n); }
  return r;
}

static std::string apply(const KeySpec &k, jwt_alg_t alg, int pay, std::string t, const Mut &m) {
  TokParts tp = split_token(t);
  auto reb = [&](const std::string &h, const std::string &p, const std::string &s) { return h + "." + p + "." + s; };
  unsigned ua = (unsigned)m.a, ub = (unsigned)m.b, uc = (unsigned)m.c;
  const AlgInfo *ai = alg_info(alg);
  switch (m.kind) {
  case M_FLIP_CHAR: { if (t.empty()) return t; size_t pos = ua % t.size(); if (t[pos] == '.') return t; char nc = B64U[ub % 64]; if (nc == t[pos]) nc = B64U[(ub + 1) % 64]; t[pos] = nc; return t; }
  case M_FLIP_BIT: { if (!tp.ok) return t; int seg = ua % 3; std::string *src = seg == 0 ? &tp.hdec : seg == 1 ? &tp.pdec : &tp.sdec; if (src->empty()) return t; std::string b = *src; b[ub % b.size()] ^= (char)(1 << (uc % 8));
      std::string e = b64u_enc(b); return seg == 0 ? reb(e, tp.p, tp.s) : seg == 1 ? reb(tp.h, e, tp.s) : reb(tp.h, tp.p, e); }
  case M_RAW_BYTE: { if (t.empty()) return t; t[ua % t.size()] = (char)(1 + ub % 255); return t; }
  case M_TRUNC_SIG: { if (!tp.ok || tp.s.empty()) return t; size_t k2 = 1 + ua % std::min<size_t>(tp.s.size(), 6); return reb(tp.h, tp.p, tp.s.substr(0, tp.s.size() - k2)); }
  case M_EXT_SIG: { if (!tp.ok) return t; static const unsigned LN[] = {1, 2, 3, 4, 1, 2, 4, 255, 256, 257, 512, 768, 1024, 4096, 65536, 131072};   // incl. lengths whose low 8 / 16 bits are zero
      std::string e; unsigned n = LN[ua % 16]; for (unsigned i = 0; i < n; i++) e += B64U[(ub + i * 7) % 64]; return reb(tp.h, tp.p, (uc & 1) ? e + tp.s : tp.s + e); }
  case M_PAD_JUNK: { static const char *J[] = {"=", "==", "=A", "=.", "==AAAA", "=\x01", "= "}; return t + J[ua % 7]; }
  case M_INSERT_DOT: { size_t pos = ua % (t.size() + 1); t.insert(pos, "."); return t; }
  case M_SIG_EMPTY: return tp.ok ? reb(tp.h, tp.p, "") : t;
  case M_SIG_ZERO: { static const char FILL[] = {'\0', '\xff', '\x80', '\x7f'}; return tp.ok ? reb(tp.h, tp.p, b64u_enc(std::string(tp.sdec.size(), FILL[ua % 4]))) : t; }   // constant fill: every integer in the signature is 0 / has its top bit set / is maximal
  case M_SIG_RANDOM: { if (!tp.ok) return t; Rng r(ua * 77 + ub); return reb(tp.h, tp.p, b64u_enc(r.bytes(tp.sdec.size()))); }
  case M_SIG_WRONGLEN: { if (!tp.ok) return t; Rng r(ua); static const int D[] = {-33, -2, -1, 1, 2, 32, 34, 64}; int n = (int)tp.sdec.size() + D[ub % 8]; if (n < 1) n = 1; return reb(tp.h, tp.p, b64u_enc(r.bytes(n))); }
  case M_SIG_OTHER_TOKEN: { if (!tp.ok) return t; TokParts o = split_token(base_token(k, alg, (pay + 1 + ua % (NPAY - 1)) % NPAY)); return reb(tp.h, tp.p, o.s); }
  case M_SIG_OTHER_KEY: { if (!tp.ok) return t; const KeySpec *o = other_key(k); if (!o) return t; std::string s = ref_sign(*o, alg, tp.signing_input); return s.empty() ? t : reb(tp.h, tp.p, b64u_enc(s)); }
  case M_SIG_OTHER_ALG: { if (!tp.ok) return t; std::vector<jwt_alg_t> as; for (auto &x : ALGS) if (x.kind == k.kind && x.alg != alg && (k.kind != K_EC || x.ecbits == k.bits)) as.push_back(x.alg); if (as.empty()) return t;
      std::string s = ref_sign(k, as[ua % as.size()], tp.signing_input); return s.empty() ? t : reb(tp.h, tp.p, b64u_enc(s)); }
  case M_EC_SPECIAL: { if (!tp.ok || !ai || ai->kind != K_EC) return t; size_t w = (k.bits + 7) / 8; if (tp.sdec.size() != 2 * w) return t; std::string r = tp.sdec.substr(0, w), s = tp.sdec.substr(w), n = order_bytes(k), z(w, '\0');
      switch (ua % 10) {
      case 0: return reb(tp.h, tp.p, b64u_enc(z + s)); case 1: return reb(tp.h, tp.p, b64u_enc(r + z)); case 2: return reb(tp.h, tp.p, b64u_enc(n + s)); case 3: return reb(tp.h, tp.p, b64u_enc(r + n));
      case 4: { BIGNUM *bn = BN_bin2bn((const unsigned char *)n.data(), (int)w, nullptr), *bs = BN_bin2bn((const unsigned char *)s.data(), (int)w, nullptr); BN_sub(bs, bn, bs); std::string ns = bn_bytes(bs, (int)w); BN_free(bn); BN_free(bs); return reb(tp.h, tp.p, b64u_enc(r + ns)); }  // (r, n-s): valid by malleability
      case 5: { size_t nw = w == 32 ? 48 : w == 48 ? 66 : 72; return reb(tp.h, tp.p, b64u_enc(std::string(nw - w, '\0') + r + std::string(nw - w, '\0') + s)); }  // zero-padded to next width
      case 6: return reb(tp.h, tp.p, b64u_enc(strip0(r) + strip0(s)));
      case 7: return reb(tp.h, tp.p, b64u_enc(std::string(1, '\0') + r + std::string(1, '\0') + s));
      case 8: { size_t nw = w == 66 ? 48 : w == 48 ? 32 : 24; return reb(tp.h, tp.p, b64u_enc(r.substr(w - nw) + s.substr(w - nw))); }
      case 9: {   // r = -e/d mod n, s = 1: the verifier's point e/s*G + r/s*Q is the point at infinity - not a valid signature; a verify routine
                  // reports this as an ERROR (a third outcome beside valid / invalid), which must not be taken for success
        BIGNUM *d = nullptr; if (!EVP_PKEY_get_bn_param(k.pkey, OSSL_PKEY_PARAM_PRIV_KEY, &d) || !d) return t;
        const EVP_MD *md = ai->alg == JWT_ALG_ES384 ? EVP_sha384() : ai->alg == JWT_ALG_ES512 ? EVP_sha512() : EVP_sha256(); unsigned char hh[64]; unsigned hl = 0;
        EVP_Digest(tp.signing_input.data(), tp.signing_input.size(), hh, &hl, md, nullptr);
        BN_CTX *cx = BN_CTX_new(); BIGNUM *bn = BN_bin2bn((const unsigned char *)n.data(), (int)w, nullptr), *e = BN_bin2bn(hh, (int)hl, nullptr), *br = BN_new(), *di = BN_new();
        int nbits = BN_num_bits(bn); if ((int)hl * 8 > nbits) BN_rshift(e, e, (int)hl * 8 - nbits);
        BN_mod(e, e, bn, cx); BN_mod_sub(e, bn, e, bn, cx); BN_mod_inverse(di, d, bn, cx); BN_mod_mul(br, e, di, bn, cx);
        std::string rr = bn_bytes(br, (int)w), one(w, '\0'); one[w - 1] = 1; bool zero = BN_is_zero(br);
        BN_free(d); BN_free(bn); BN_free(e); BN_free(br); BN_free(di); BN_CTX_free(cx);
        return zero ? t : reb(tp.h, tp.p, b64u_enc(rr + one)); }
      } return t; }
  case M_RESIGN_RANGE: {   // the real key signs something OTHER than "first segment . second segment": text with further dots, with '=' inside, or a prefix
      if (!tp.ok) return t; std::string X; for (unsigned i = 0; i < 4 + ub % 9; i++) X += B64U[(uc + i * 11) % 64]; std::string over, text;
      switch (ua % 8) {
      case 0: over = tp.h + "." + tp.p + "=." + X; text = over; break;            // H.P=.X.S  S over "H.P=.X"
      case 1: over = tp.h + "." + tp.p + "." + X; text = over; break;             // H.P.X.S   S over "H.P.X"
      case 2: over = tp.h + "." + tp.p + "==." + X; text = over; break;
      case 3: over = tp.h + "=." + tp.p; text = over; break;                      // H=.P.S    S over "H=.P"
      case 4: over = tp.h + "." + tp.p; text = tp.h + "." + tp.p + "="; break;    // H.P=.S    S over "H.P"
      case 5: over = tp.h + "." + tp.p; text = tp.h + "." + tp.p + "." + X; break; // H.P.X.S  S over "H.P"
      case 6: over = tp.h; text = tp.h + "." + tp.p; break;                       // S over the header alone
      default: over = tp.h + "." + tp.p + "."; text = tp.h + "." + tp.p; break;   // S over "H.P."
      }
      std::string s = ref_sign(k, alg, over); return s.empty() ? t : text + "." + b64u_enc(s); }
  case M_ED_SPLUSL: { if (!tp.ok || !ai || ai->kind != K_OKP || k.bits != 256 || tp.sdec.size() != 64) return t;
      static const unsigned char Lb[32] = {0xed, 0xd3, 0xf5, 0x5c, 0x1a, 0x63, 0x12, 0x58, 0xd6, 0x9c, 0xf7, 0xa2, 0xde, 0xf9, 0xde, 0x14, 0, 0, 0, 0, 0, 0, 0, 0, 0, 0, 0, 0, 0, 0, 0, 0x10};
      std::string s = tp.sdec; int carry = 0; for (int i = 0; i < 32; i++) { int v = (unsigned char)s[32 + i] + Lb[i] + carry; s[32 + i] = (char)(v & 0xff); carry = v >> 8; } return reb(tp.h, tp.p, b64u_enc(s)); }
  case M_RSA_ZERO: { if (!tp.ok || !ai || ai->kind != K_RSA) return t; return reb(tp.h, tp.p, b64u_enc((ua & 1) ? std::string(1, '\0') + tp.sdec : tp.sdec + std::string(1, '\0'))); }
  case M_HDR_ALG: { if (!tp.ok) return t; static const char *NA[] = {"HS256", "HS384", "HS512", "RS256", "RS384", "RS512", "ES256", "ES384", "ES512", "PS256", "PS384", "PS512", "ES256K", "EdDSA", "none", "None", "hs256"};
      const char *na = NA[ua % 17]; std::string h = std::string("{\"alg\":\"") + na + "\",\"typ\":\"JWT\"}"; std::string in = b64u_enc(h) + "." + tp.p;
      const AlgInfo *ni = alg_by_name(na);
      switch (ub % 5) {
      case 0: return in + "." + tp.s;  // keep the old signature
      case 1: if (ni && ni->kind == K_OCT) return in + "." + b64u_enc(ref_hmac("", ni->md, in)); return in + "." + tp.s;
      case 2: if (ni && ni->kind == K_OCT && k.pkey) return in + "." + b64u_enc(ref_hmac(pkey_to_pem(k.pkey, false), ni->md, in)); return in + "." + tp.s;
      case 3: return in + ".";
      case 4: if (ni) { std::string s = ref_sign(k, ni->alg, in); if (!s.empty()) return in + "." + b64u_enc(s); } return in + "." + tp.s;  // real key, other alg, matching header: valid iff same family
      } return t; }
  case M_PAYLOAD: { if (!tp.ok) return t; return reb(tp.h, b64u_enc(PAYLOADS[(pay + 1 + ua % (NPAY - 1)) % NPAY]), tp.s); }
  case M_SWAP: { if (!tp.ok) return t; TokParts o = split_token(base_token(k, alg, (pay + 1 + ua % (NPAY - 1)) % NPAY)); return (ub & 1) ? reb(o.h, tp.p, tp.s) : reb(tp.h, o.p, tp.s); }
  case M_HDR_WS: { if (!tp.ok) return t; std::string h = std::string("{ \"typ\":\"JWT\", \"alg\" : \"") + jwt_alg_str(alg) + "\" }"; return reb(b64u_enc(h), tp.p, tp.s); }  // same meaning, other bytes
  case M_STD_ALPHA: { for (auto &c : t) { if (c == '-') c = '+'; else if (c == '_') c = '/'; } return t; }  // lenient alphabet: still the same bytes
  }
  return t;
}

