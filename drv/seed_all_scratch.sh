#!/bin/bash
# like seed_all.sh, but on scratch copies of /repo's HEAD (VERIF_REPO) instead of /repo's working tree: usable while /repo is busy.
# usage: drv/seed_all_scratch.sh [pattern]   (pattern: shell glob over seeded/<name>, default C*)
export VERIF_EVIDENCE_DIR=/verif/out/evidence-scratch
cd /verif
for d in seeded/${1:-C*}; do
  n=$(basename $d); [ -f $d/patch.diff ] || continue
  if python3 -c "import json,sys; sys.exit(0 if json.load(open('$d/meta.json')).get('kept_as_seed', True) else 1)" 2>/dev/null; then :; else echo "$n not-kept"; continue; fi
  p=${n%%-*}
  cb=$(python3 -c "import json,sys,re; m=json.load(open('$d/meta.json')); r=re.search(r'check.py (C\d\d)', m.get('caught_by','')); print(r.group(1) if r else '')" 2>/dev/null); [ -n "$cb" ] && p=$cb
  D=$(mktemp -d /tmp/sas-XXXXXX); git -C /repo archive HEAD | tar -x -C $D
  if ! (cd $D && patch -p1 -s < /verif/$d/patch.diff) >/dev/null 2>&1; then echo "$n PATCH-DOES-NOT-APPLY"; rm -rf $D; continue; fi
  out=$(VERIF_REPO=$D ./check.py $p --tier quick 2>&1 | grep -v "^\[check\]" | grep -E "^OK|VIOLATION|signature" | grep -v KNOWN | head -2 | tr '\n' ' ' | cut -c1-200)
  rm -rf $D
  case "$out" in *VIOLATION*) echo "$n CAUGHT $out";; *) echo "$n MISSED $out";; esac
done
