// C20 helper: key generation (incl. forced short EC coordinates), semantic key comparison, JWK checking and
// token making for the Hypothesis driver of the command-line tools (cli/c20_cli.py). Uses only OpenSSL + vlib.
#include "vlib.h"
#include "vkeys.h"
using namespace v;

static void wfile(const std::string &p, const std::string &d) { FILE *f = fopen(p.c_str(), "wb"); if (!f) { perror(p.c_str()); exit(2); } fwrite(d.data(), 1, d.size(), f); fclose(f); }

static KeySpec load_any(const std::string &path) {
  std::string d = read_file(path); KeySpec s; s.name = path;
  s.pkey = pem_to_pkey(d, true); bool priv = s.pkey != nullptr;
  if (!s.pkey) s.pkey = pem_to_pkey(d, false);
  if (s.pkey) { fill_spec_from_pkey(s); s.name = priv ? "priv" : "pub"; return s; }
  s.kind = K_OCT; s.oct = d; s.bits = (int)d.size() * 8; s.name = "oct"; return s;
}
static std::string raw_okp(EVP_PKEY *k, bool priv) { unsigned char b[64]; size_t l = sizeof b; if (priv ? EVP_PKEY_get_raw_private_key(k, b, &l) : EVP_PKEY_get_raw_public_key(k, b, &l)) return std::string((char *)b, l); return ""; }

// same key? (public parts; private parts too if both have them)
static std::string same_key(const KeySpec &a, const KeySpec &b) {
  if (a.kind != b.kind) return "kind-differs";
  if (a.kind == K_OCT) return a.oct == b.oct ? "" : "oct-bytes-differ";
  bool privs = a.name == "priv" && b.name == "priv";
  if (a.kind == K_RSA) { for (auto n : {OSSL_PKEY_PARAM_RSA_N, OSSL_PKEY_PARAM_RSA_E}) if (pkey_bn(a.pkey, n) != pkey_bn(b.pkey, n)) return std::string("rsa-") + n;
    if (EVP_PKEY_is_a(a.pkey, "RSA-PSS") != EVP_PKEY_is_a(b.pkey, "RSA-PSS")) return "rsa-vs-rsa-pss-key-type";   // "writes back the identical key": an id-RSASSA-PSS key stays one
    if (privs) for (auto n : {OSSL_PKEY_PARAM_RSA_D, OSSL_PKEY_PARAM_RSA_FACTOR1, OSSL_PKEY_PARAM_RSA_FACTOR2, OSSL_PKEY_PARAM_RSA_EXPONENT1, OSSL_PKEY_PARAM_RSA_EXPONENT2, OSSL_PKEY_PARAM_RSA_COEFFICIENT1}) if (pkey_bn(a.pkey, n) != pkey_bn(b.pkey, n)) return std::string("rsa-") + n; return ""; }
  if (a.kind == K_EC) { int w = (a.bits + 7) / 8; if (a.crv != b.crv) return "curve"; if (pkey_bn(a.pkey, OSSL_PKEY_PARAM_EC_PUB_X, w) != pkey_bn(b.pkey, OSSL_PKEY_PARAM_EC_PUB_X, w)) return "x"; if (pkey_bn(a.pkey, OSSL_PKEY_PARAM_EC_PUB_Y, w) != pkey_bn(b.pkey, OSSL_PKEY_PARAM_EC_PUB_Y, w)) return "y";
    if (privs && pkey_bn(a.pkey, OSSL_PKEY_PARAM_PRIV_KEY, w) != pkey_bn(b.pkey, OSSL_PKEY_PARAM_PRIV_KEY, w)) return "d"; return ""; }
  if (a.crv != b.crv) return "okp-curve"; if (raw_okp(a.pkey, false) != raw_okp(b.pkey, false)) return "okp-x"; if (privs && raw_okp(a.pkey, true) != raw_okp(b.pkey, true)) return "okp-d"; return "";
}

// check one JWK object (as emitted by key2jwk) against the original key: same key + RFC 7518 member encodings
static std::string jwk_check(json_t *jwk, const KeySpec &orig, bool priv) {
  std::string enc_err;   // set when a member is present but not canonical unpadded base64url
  auto member = [&](const char *n, std::string &out) -> bool { json_t *v = json_object_get(jwk, n); if (!v || !json_is_string(v)) return false; std::string s = json_string_value(v);
    if (!is_b64u_text(s)) { enc_err = std::string(n) + "-not-base64url"; out.clear(); return true; } if (!b64u_dec_strict(s, out)) { enc_err = std::string(n) + "-noncanonical-base64url"; out.clear(); } return true; };
  const char *kty = json_string_value(json_object_get(jwk, "kty")); if (!kty) return "no-kty";
  std::string v;
  if (orig.kind == K_OCT) { if (strcmp(kty, "oct")) return "kty"; if (!member("k", v) || v != orig.oct) return "k-differs"; return ""; }
  if (orig.kind == K_RSA) { if (strcmp(kty, "RSA")) return "kty";
    const char *names[] = {"n", "e", "d", "p", "q", "dp", "dq", "qi"}; const char *prm[] = {OSSL_PKEY_PARAM_RSA_N, OSSL_PKEY_PARAM_RSA_E, OSSL_PKEY_PARAM_RSA_D, OSSL_PKEY_PARAM_RSA_FACTOR1, OSSL_PKEY_PARAM_RSA_FACTOR2, OSSL_PKEY_PARAM_RSA_EXPONENT1, OSSL_PKEY_PARAM_RSA_EXPONENT2, OSSL_PKEY_PARAM_RSA_COEFFICIENT1};
    for (int i = 0; i < (priv ? 8 : 2); i++) { if (!member(names[i], v)) return std::string("missing-") + names[i]; if (!enc_err.empty()) return enc_err; if (strip0(v) != strip0(pkey_bn(orig.pkey, prm[i]))) return std::string(names[i]) + "-differs"; }
    if (!priv && json_object_get(jwk, "d")) return "public-jwk-has-d"; return ""; }
  if (orig.kind == K_EC) { if (strcmp(kty, "EC")) return "kty"; const char *crv = json_string_value(json_object_get(jwk, "crv")); if (!crv || orig.crv != crv) return "crv-differs";
    size_t w = (orig.bits + 7) / 8; const char *names[] = {"x", "y", "d"}; const char *prm[] = {OSSL_PKEY_PARAM_EC_PUB_X, OSSL_PKEY_PARAM_EC_PUB_Y, OSSL_PKEY_PARAM_PRIV_KEY};
    for (int i = 0; i < (priv ? 3 : 2); i++) { if (!member(names[i], v)) return std::string("missing-") + names[i]; if (!enc_err.empty()) return enc_err; if (strip0(v) != strip0(pkey_bn(orig.pkey, prm[i], (int)w))) return std::string(names[i]) + "-differs";
      if (v.size() != w) return std::string("ec-") + names[i] + "-not-fixed-width:" + std::to_string(v.size()) + "-of-" + std::to_string(w); }
    if (!priv && json_object_get(jwk, "d")) return "public-jwk-has-d"; return ""; }
  if (strcmp(kty, "OKP")) return "kty"; { const char *crv = json_string_value(json_object_get(jwk, "crv")); if (!crv || orig.crv != crv) return "crv-differs"; }
  if (priv) { if (!member("d", v) || v != raw_okp(orig.pkey, true)) return "okp-d-differs"; if (member("x", v) && v != raw_okp(orig.pkey, false)) return "okp-x-differs"; }
  else { if (!member("x", v) || v != raw_okp(orig.pkey, false)) return "okp-x-differs"; if (json_object_get(jwk, "d")) return "public-jwk-has-d"; }
  return "";
}

int main(int argc, char **argv) {
  if (argc < 2) return 2; std::string cmd = argv[1];
  if (cmd == "gen" && argc >= 5) {   // gen <type> <outprefix> <short:0|1>
    std::string type = argv[2], pre = argv[3]; bool want_short = atoi(argv[4]);
    if (type.rfind("oct", 0) == 0) { int n = atoi(type.c_str() + 3); unsigned char b[8192]; FILE *f = fopen("/dev/urandom", "rb"); if (fread(b, 1, n, f) != (size_t)n) return 2; fclose(f); b[0] = 0x80 | b[0];
      size_t col = type.find(':'); if (col != std::string::npos) b[n - 1] = (unsigned char)strtoul(type.c_str() + col + 1, nullptr, 16);   // "oct48:0a": forced last byte
      wfile(pre + ".bin", std::string((char *)b, n)); printf("oct\n"); return 0; }
    for (int tries = 0; tries < 100000; tries++) {
      KeySpec k = gen_key(type);
      bool sh = false; if (k.kind == K_EC) { int w = (k.bits + 7) / 8; sh = pkey_bn(k.pkey, OSSL_PKEY_PARAM_EC_PUB_X, w)[0] == 0 || pkey_bn(k.pkey, OSSL_PKEY_PARAM_EC_PUB_Y, w)[0] == 0 || pkey_bn(k.pkey, OSSL_PKEY_PARAM_PRIV_KEY, w)[0] == 0; }
      if (want_short && k.kind == K_EC && !sh) { EVP_PKEY_free(k.pkey); continue; }
      // optional 5th argument: how the same key is written to the file - EC point form compressed / hybrid, or the traditional (PKCS#1 / SEC1) private key PEM
      std::string form = argc >= 6 ? argv[5] : "";
      if (k.kind == K_EC && (form == "compressed" || form == "hybrid")) EVP_PKEY_set_utf8_string_param(k.pkey, OSSL_PKEY_PARAM_EC_POINT_CONVERSION_FORMAT, form.c_str());
      if (form == "trad") { BIO *b = BIO_new(BIO_s_mem()); PEM_write_bio_PrivateKey_traditional(b, k.pkey, nullptr, nullptr, 0, nullptr, nullptr); char *d; long n = BIO_get_mem_data(b, &d); wfile(pre + ".pem", std::string(d, n)); BIO_free(b); }
      else
      wfile(pre + ".pem", pkey_to_pem(k.pkey, true)); wfile(pre + "_pub.pem", pkey_to_pem(k.pkey, false)); printf("%s %d %s\n", k.kind == K_RSA ? "RSA" : k.kind == K_EC ? "EC" : "OKP", k.bits, sh ? "short" : "full"); return 0;
    }
    return 2;
  }
  if (cmd == "copyfix" && argc >= 4) { KeySpec k = load_fixture(argv[2]); wfile(std::string(argv[3]) + ".pem", pkey_to_pem(k.pkey, true)); wfile(std::string(argv[3]) + "_pub.pem", pkey_to_pem(k.pkey, false)); printf("fixture\n"); return 0; }
  if (cmd == "genpss" && argc >= 3) { EVP_PKEY *k = nullptr; EVP_PKEY_CTX *c = EVP_PKEY_CTX_new_from_name(nullptr, "RSA-PSS", nullptr); if (!c || EVP_PKEY_keygen_init(c) <= 0 || EVP_PKEY_CTX_set_rsa_keygen_bits(c, 2048) <= 0 || EVP_PKEY_keygen(c, &k) <= 0 || !k) return 2; EVP_PKEY_CTX_free(c); wfile(std::string(argv[2]) + ".pem", pkey_to_pem(k, true)); wfile(std::string(argv[2]) + "_pub.pem", pkey_to_pem(k, false)); printf("RSA-PSS 2048\n"); return 0; }
  if (cmd == "cmp" && argc >= 4) { KeySpec a = load_any(argv[2]), b = load_any(argv[3]); std::string r = same_key(a, b); printf("%s\n", r.empty() ? "same" : r.c_str()); return r.empty() ? 0 : 1; }
  if (cmd == "jwkcheck" && argc >= 4) {   // jwkcheck <jwks-file> <orig1> [orig2...]: i-th key of the set vs i-th original
    J doc = J::parse(read_file(argv[2])); if (!doc) { printf("output-not-json\n"); return 1; }
    json_t *keys = json_object_get(doc.p, "keys"); if (!keys || !json_is_array(keys)) { printf("no-keys-array\n"); return 1; }
    if ((int)json_array_size(keys) != argc - 3) { printf("key-count-differs\n"); return 1; }
    int rc = 0;
    for (int i = 3; i < argc; i++) { KeySpec o = load_any(argv[i]); std::string r = jwk_check(json_array_get(keys, i - 3), o, o.name != "pub"); printf("%d %s\n", i - 3, r.empty() ? "ok" : r.c_str()); if (!r.empty()) rc = 1; }
    return rc;
  }
  if (cmd == "mkjwk" && argc >= 5) {   // mkjwk <keyfile> <alg|-> <priv|pub>
    KeySpec k = load_any(argv[2]); JwkOpts o; o.alg = strcmp(argv[3], "-") ? argv[3] : ""; o.priv = !strcmp(argv[4], "priv"); printf("%s\n", jwk_json(k, o).c_str()); return 0; }
  if (cmd == "token" && argc >= 5) {   // token <keyfile|-> <alg|none> <payload-json>  -> validly signed token
    std::string alg = argv[3]; KeySpec k; if (strcmp(argv[2], "-")) k = load_any(argv[2]);
    jwt_alg_t a = alg == "none" ? JWT_ALG_NONE : alg_by_name(alg) ? alg_by_name(alg)->alg : JWT_ALG_INVAL; if (a == JWT_ALG_INVAL) return 2;
    std::string kid = argc >= 6 ? std::string(",\"kid\":\"") + argv[5] + "\"" : std::string();   // optional: shifts the header length
    printf("%s\n", ref_token(k, a, std::string("{\"alg\":\"") + alg + "\",\"typ\":\"JWT\"" + kid + "}", argv[4]).c_str()); return 0; }
  if (cmd == "valid" && argc >= 4) { KeySpec k = load_any(argv[2]); bool ok = ref_valid(k, argv[3]); printf("%s\n", ok ? "valid" : "invalid"); return ok ? 0 : 1; }
  return 2;
}
