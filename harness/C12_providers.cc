// C12 - crypto providers are interchangeable: same verdicts, mutual acceptance, byte-identical deterministic
// tokens, provider switching only on exact names/ids, keys usable across providers.
#include <rapidcheck.h>
#include "vlib.h"
#include "vkeys.h"
#include "vmut.h"
#include <sys/wait.h>
#include <fcntl.h>
using namespace v;
template <typename T> static rc::Gen<T> UNI(T lo, T hi) { return rc::gen::resize(100, rc::gen::inRange<T>(lo, hi)); }

struct Case { int key, algi, cfg, pay; std::vector<Mut> muts; std::string token; };
static Case CUR;
static std::string case_json(const Case &c) {
  std::string m = "[";
  for (size_t i = 0; i < c.muts.size(); i++) { m += (i ? "," : ""); m += "[\"" + std::string(MN[c.muts[i].kind]) + "\"," + std::to_string(c.muts[i].a) + "," + std::to_string(c.muts[i].b) + "," + std::to_string(c.muts[i].c) + "]"; }
  return "{\"kind\":\"verdict\",\"key\":\"" + KEYS[c.key]->name + "\",\"alg\":\"" + ALGS[c.algi].name + "\",\"cfg\":" + std::to_string(c.cfg) + ",\"mutations\":" + m + "],\"token\":" + jstr(c.token) + "}";
}
static int verdict(int prov, const KeySpec &k, jwt_alg_t alg, int cfg, const std::string &tok, std::string *msg = nullptr) {
  set_provider(prov);
  jwt_checker_t *ch = jwt_checker_new(); int sr;
  if (cfg == 0) sr = jwt_checker_setkey(ch, alg, lkey(k, "").item); else sr = jwt_checker_setkey(ch, JWT_ALG_NONE, lkey(k, jwt_alg_str(alg)).item);
  int ret = sr ? -1 : jwt_checker_verify(ch, tok.c_str());
  if (msg) *msg = jwt_checker_error_msg(ch) ? jwt_checker_error_msg(ch) : "";
  jwt_checker_free(ch); return ret;
}
// classification of a token for the statement: 0 = not validly signed at all, 1 = RFC-conformant valid, 2 = gray zone (valid but not as RFC 7518 prescribes)
static int classify(const KeySpec &k, jwt_alg_t pinned, const std::string &tok) {
  if (!ref_valid(k, tok)) return 0;
  { TokParts t0 = split_token(tok); if (!t0.p_ok || !J::parse(t0.pdec)) return 0; }   // validly signed but not a JWT (payload is not JSON): both must reject alike
  TokParts tp = split_token(tok); std::string an; header_alg(tp, an); const AlgInfo *ai = alg_by_name(an);
  if (!ai || ai->alg != pinned) return 2;                       // valid under another alg of the key: pinning decides, both providers must still agree -> treat as gray (C02 covers)
  std::string d; if (!is_b64u_text(tp.s) || !b64u_dec_strict(tp.s, d) || !is_b64u_text(tp.h) || !is_b64u_text(tp.p)) return 2;   // lenient base64
  if (!ref_verify_rfc(k, ai->alg, tp.signing_input, tp.sdec)) return 2;                                                         // e.g. PSS salt != hash length
  return 1;
}
static bool ed448_tail(const KeySpec &k, const std::string &tok) {
  if (!(k.kind == K_OKP && k.bits == 456)) return false; TokParts tp = split_token(tok);
  if (!tp.ok || !tp.s_ok || tp.sdec.size() != 114 || tp.sdec[113] == 0) return false; std::string z = tp.sdec; z[113] = 0; return ref_verify(k, JWT_ALG_EDDSA, tp.signing_input, z);
}

static std::string run_verdict_case(const Case &c, bool count) {
  Stats &st = stats(); CUR = c; const KeySpec &k = *KEYS[c.key]; jwt_alg_t alg = ALGS[c.algi].alg;
  int cl = classify(k, alg, c.token);
  std::string m0, m1; int v0 = verdict(0, k, alg, c.cfg, c.token, &m0), v1 = verdict(1, k, alg, c.cfg, c.token, &m1);
  if (count) {
    st.evaluations++; st.cls(cl == 0 ? "token-not-validly-signed" : cl == 1 ? "token-rfc-valid" : "token-gray-zone(excluded)");
    bool crypto0 = v0 == 0 || m0.find("failed verification") != std::string::npos || m0.rfind("JWT[", 0) == 0, crypto1 = v1 == 0 || m1.find("failed verification") != std::string::npos || m1.rfind("JWT[", 0) == 0;
    if (cl != 2 && crypto0 && crypto1) st.nontrivial(mix(fnv(c.token), mix(c.key, mix(c.algi, c.cfg))));
    if (st.want_sample()) st.sample(case_json(c));
  }
  if (cl == 2) return "";
  if ((v0 == 0) != (v1 == 0)) {
    if (cl == 0 && v1 == 0 && ed448_tail(k, c.token)) return "verdicts-differ:ed448-signature-valid-except-nonzero-last-byte:gnutls-accepts";
    return std::string("verdicts-differ:") + (cl ? "rfc-valid-token" : "invalid-token") + ":" + (v0 == 0 ? "openssl-accepts" : "gnutls-accepts") + ":" + (k.kind == K_OCT ? "oct" : k.kind == K_RSA ? "rsa" : k.kind == K_EC ? "ec" : "okp");
  }
  if (cl == 1 && v0 != 0) return "rfc-valid-token-rejected-by-both";
  return "";
}

// (2)+(3)+(5): builder under provider A with key loaded under provider L, verify under provider B
static std::string run_cross(int kidx, int algi, int lprov, int sprov, int vprov, int salt, std::string *desc, const std::string &saved = "") {
  const KeySpec &k = *KEYS[kidx]; jwt_alg_t alg = ALGS[algi].alg;
  *desc = "{\"kind\":\"cross\",\"key\":\"" + k.name + "\",\"alg\":\"" + ALGS[algi].name + "\",\"kidx\":" + std::to_string(kidx) + ",\"algi\":" + std::to_string(algi) + ",\"load_provider\":" + std::to_string(lprov) + ",\"sign_provider\":" + std::to_string(sprov) + ",\"verify_provider\":" + std::to_string(vprov) + ",\"salt\":" + std::to_string(salt) + "}";
  set_provider(lprov); set_now(1700000000 + salt);
  JwkOpts o; o.priv = true; LKey key(jwk_json(k, o));   // loaded under lprov
  if (!key.ok()) return "key-import-failed";
  auto gen = [&](int prov, std::string &out) { set_provider(prov); jwt_builder_t *b = jwt_builder_new(); jwt_builder_setkey(b, alg, key.item); jwt_value_t v = val_int("n", salt, 1); jwt_builder_claim_set(b, &v); jwt_builder_time_offset(b, JWT_CLAIM_EXP, 3600);
    char *t = jwt_builder_generate(b); bool ok = t != nullptr; if (t) { out = t; free(t); } jwt_builder_free(b); return ok; };
  std::string t = saved;   // replay: the saved token is the reproducible unit (ECDSA/PSS signatures are randomized)
  if (t.empty() && !gen(sprov, t)) return std::string("generate-fails-with-key-loaded-under-other-provider:") + prov_name(sprov);
  desc->pop_back(); *desc += ",\"token\":" + jstr(t) + "}";
  set_provider(vprov);
  jwt_checker_t *ch = jwt_checker_new(); jwt_checker_setkey(ch, alg, key.item); int ret = jwt_checker_verify(ch, t.c_str()); std::string msg = jwt_checker_error_msg(ch) ? jwt_checker_error_msg(ch) : ""; jwt_checker_free(ch);
  if (ret) return std::string("providers-do-not-accept-each-other:signer=") + prov_name(sprov) + ",verifier=" + prov_name(vprov);
  const AlgInfo *ai = alg_info(alg);
  if (ai->kind == K_OCT || ai->kind == K_OKP || (ai->kind == K_RSA && !ai->pss)) { std::string t2; if (!gen(1 - sprov, t2)) return "generate-fails-under-other-provider"; if (t2 != t) return std::string("deterministic-token-differs-between-providers:") + ALGS[algi].name; }
  set_provider(1 - lprov);  // the key is freed under the other provider (LKey destructor)
  return "";
}

// (1)+(5) after a key rotation: with a recycling allocator (jwt_set_alloc) key A is loaded, used under both providers and freed; key B of the
// same type lands where A's item was. Both providers must judge A's and B's tokens under B exactly alike (and as the reference does).
static std::string run_rotation(int pi, int lprov, int first, std::string *desc) {
  struct Pair { const char *a, *b; jwt_alg_t alg; };
  static const Pair pairs[] = {{"rsa_2048", "rsa_2048b", JWT_ALG_RS256}, {"rsa_2048", "rsa_2048b", JWT_ALG_PS384}, {"ec_p256", "ec_p256b", JWT_ALG_ES256}, {"ec_p384", "ec_p384b", JWT_ALG_ES384}, {"ec_p521", "ec_p521b", JWT_ALG_ES512},
                               {"ed25519", "ed25519b", JWT_ALG_EDDSA}, {"ed448", "ed448b", JWT_ALG_EDDSA}, {"oct64", "oct64b", JWT_ALG_HS256}, {"oct64", "oct64b", JWT_ALG_HS512}};
  const Pair &pr = pairs[pi % (int)(sizeof(pairs) / sizeof(pairs[0]))];
  *desc = "{\"kind\":\"rotation\",\"pair\":" + std::to_string(pi) + ",\"a\":\"" + pr.a + "\",\"b\":\"" + pr.b + "\",\"alg\":\"" + jwt_alg_str(pr.alg) + "\",\"load_provider\":" + std::to_string(lprov) + ",\"first_verifier\":" + std::to_string(first) + "}";
  const KeySpec &A = POOL.get(pr.a), &B = POOL.get(pr.b); bool oct = A.kind == K_OCT;
  std::string hdr = std::string("{\"alg\":\"") + jwt_alg_str(pr.alg) + "\"}", tokA = ref_token(A, pr.alg, hdr, "{\"k\":\"A\"}"), tokB = ref_token(B, pr.alg, hdr, "{\"k\":\"B\"}");
  auto judge = [&](int prov, const jwk_item_t *it, const std::string &tok) { set_provider(prov); jwt_checker_t *ch = jwt_checker_new(); int r = jwt_checker_setkey(ch, pr.alg, it) ? -1 : (jwt_checker_verify(ch, tok.c_str()) ? 1 : 0); jwt_checker_free(ch); return r; };
  set_provider(lprov); jwt_set_alloc(recycle_malloc, recycle_free); std::string bad; const void *addrA = nullptr, *addrB = nullptr;
  { JwkOpts o; o.priv = oct; o.kid = "rot"; LKey ka(jwk_json(A, o)); addrA = ka.item; if (ka.item) { for (int i = 0; i < 2; i++) if (judge(i ? 1 - first : first, ka.item, tokA) != 0) bad = "first-key-rejects-its-own-token"; } set_provider(lprov); }
  if (bad.empty()) { set_provider(lprov); JwkOpts o; o.priv = oct; o.kid = "rot"; LKey kb(jwk_json(B, o)); addrB = kb.item;
    if (kb.item) for (int i = 0; i < 2 && bad.empty(); i++) { int pv = i ? 1 - first : first;
      if (judge(pv, kb.item, tokA) == 0) bad = std::string("after-rotation:accepts-token-of-the-previous-key:") + prov_name(pv);
      else if (judge(pv, kb.item, tokB) != 0) bad = std::string("after-rotation:rejects-token-of-the-current-key:") + prov_name(pv); }
    set_provider(lprov); }
  jwt_set_alloc(NULL, NULL);
  if (addrA && addrA == addrB) stats().cls("rotation:item-address-reused");
  return bad;
}

// (4) provider switching
static std::string run_names(const std::string &name, int start, std::string *desc) {
  *desc = "{\"kind\":\"name\",\"name\":" + jstr(name) + ",\"start\":" + std::to_string(start) + "}";
  set_provider(start); const char *before = jwt_get_crypto_ops(); jwt_crypto_provider_t tb = jwt_get_crypto_ops_t();
  int r = jwt_set_crypto_ops(name.c_str());
  bool exact = name == "openssl" || name == "gnutls";
  if (exact) { if (r != 0) return "exact-provider-name-refused"; if (name != jwt_get_crypto_ops()) return "exact-name-did-not-switch"; if (jwt_get_crypto_ops_t() != (name == "openssl" ? JWT_CRYPTO_OPS_OPENSSL : JWT_CRYPTO_OPS_GNUTLS)) return "name-and-id-disagree-after-switch"; }
  else { if (r == 0) return "near-miss-provider-name-accepted"; if (strcmp(before, jwt_get_crypto_ops()) || tb != jwt_get_crypto_ops_t()) return "failed-switch-changed-provider"; }
  return "";
}
static std::string run_ids(int id, int start, std::string *desc) {
  *desc = "{\"kind\":\"id\",\"id\":" + std::to_string(id) + ",\"start\":" + std::to_string(start) + "}";
  set_provider(start); jwt_crypto_provider_t tb = jwt_get_crypto_ops_t();
  int r = jwt_set_crypto_ops_t((jwt_crypto_provider_t)id);
  bool exact = id == JWT_CRYPTO_OPS_OPENSSL || id == JWT_CRYPTO_OPS_GNUTLS;
  if (exact) { if (r != 0) return "exact-provider-id-refused"; if ((int)jwt_get_crypto_ops_t() != id) return "exact-id-did-not-switch"; if (strcmp(jwt_get_crypto_ops(), id == JWT_CRYPTO_OPS_OPENSSL ? "openssl" : "gnutls")) return "name-and-id-disagree-after-switch"; }
  else { if (r == 0) return "unknown-provider-id-accepted"; if (tb != jwt_get_crypto_ops_t()) return "failed-switch-changed-provider"; }
  return "";
}
// JWT_CRYPTO in a child process (the constructor reads it at load time): re-exec ourselves with --envprobe
static std::string run_env(const char *self, const std::string &value, std::string *desc) {
  *desc = "{\"kind\":\"env\",\"value\":" + jstr(value) + "}";
  int fds[2]; if (pipe(fds)) return "";
  pid_t p = fork();
  if (p == 0) { close(fds[0]); dup2(fds[1], 1); int dn = open("/dev/null", O_WRONLY); dup2(dn, 2); setenv("JWT_CRYPTO", value.c_str(), 1); execl(self, self, "--envprobe", "1", (char *)nullptr); _exit(127); }
  close(fds[1]); char buf[64] = {0}; ssize_t n = read(fds[0], buf, sizeof buf - 1); close(fds[0]); int stt; waitpid(p, &stt, 0);
  std::string got(buf, n > 0 ? n : 0); while (!got.empty() && got.back() == '\n') got.pop_back();
  std::string want = value == "gnutls" ? "gnutls" : "openssl";   // exact name, else the first compiled provider
  if (got != want) return "JWT_CRYPTO-env:got-" + got + "-want-" + want;
  return "";
}

int main(int argc, char **argv) {
  for (int i = 1; i < argc; i++) if (!strcmp(argv[i], "--envprobe")) { printf("%s\n", jwt_get_crypto_ops()); return 0; }
  Args a = parse_args(argc, argv);
  POOL = standard_pool();
  static KeySpec rsa2050 = load_fixture("rsa_2050");   // modulus length not a multiple of 8 bits
  for (const char *n : {"oct32", "oct64", "oct77", "rsa_2048", "ec_p256", "ec_p384", "ec_p521", "ed25519", "ed448"}) KEYS.push_back(&POOL.get(n));
  KEYS.push_back(&rsa2050);
  if (a.thorough()) for (const char *n : {"rsa_3072", "rsa_4096", "oct48"}) KEYS.push_back(&POOL.get(n));
  std::vector<std::pair<int, int>> cells;  // common matrix: everything but ES256K / secp256k1
  for (size_t ki = 0; ki < KEYS.size(); ki++) for (int ai = 0; ai < NALGS; ai++) if (strength_ok(*KEYS[ki], ALGS[ai].alg) && ALGS[ai].alg != JWT_ALG_ES256K) cells.push_back({(int)ki, ai});
  cur_case() = [] { return case_json(CUR); };
  Stats &st = stats();
  if (!a.replay.empty()) {
    J j = J::parse(read_file(a.replay)); if (!j) return 2; std::string kind = json_string_value(json_object_get(j.p, "kind")), d, r;
    auto gi = [&](const char *k) { return (int)json_integer_value(json_object_get(j.p, k)); };
    if (kind == "name") r = run_names(from_latin1_utf8(json_string_value(json_object_get(j.p, "name"))), gi("start"), &d);
    else if (kind == "id") r = run_ids(gi("id"), gi("start"), &d);
    else if (kind == "env") r = run_env(argv[0], from_latin1_utf8(json_string_value(json_object_get(j.p, "value"))), &d);
    else if (kind == "rotation") r = run_rotation(gi("pair"), gi("load_provider"), gi("first_verifier"), &d);
    else if (kind == "cross") { const char *tk = json_string_value(json_object_get(j.p, "token")); r = run_cross(gi("kidx"), gi("algi"), gi("load_provider"), gi("sign_provider"), gi("verify_provider"), gi("salt"), &d, tk ? from_latin1_utf8(tk) : ""); }
    else { Case c; c.cfg = gi("cfg"); c.pay = 0; std::string kn = json_string_value(json_object_get(j.p, "key")), an = json_string_value(json_object_get(j.p, "alg")); c.key = -1; for (size_t i = 0; i < KEYS.size(); i++) if (KEYS[i]->name == kn) c.key = (int)i; if (c.key < 0) { KEYS.push_back(&POOL.get(kn)); c.key = (int)KEYS.size() - 1; }
      c.algi = 0; for (int i = 0; i < NALGS; i++) if (an == ALGS[i].name) c.algi = i; c.token = from_latin1_utf8(json_string_value(json_object_get(j.p, "token"))); r = run_verdict_case(c, false); }
    if (!r.empty()) fprintf(stderr, "replay: %s\n", r.c_str());
    return r.empty() ? 0 : 3;
  }
  // ---- (4) names / ids / env (worker 0 and 1 share)
  if (a.worker % 4 == 0) {
    std::vector<std::string> names = {"openssl", "gnutls", "mbedtls", "OpenSSL", "GNUTLS", "Gnutls", "openss", "openssl ", " openssl", "openssl\t", "opensslx", "gnutl", "gnutlss", "", "o", "g", "openssl,gnutls", "gnutls\n", "wincrypt", "none", "any", "opensslgnutls", "\xc3\xb6penssl", "openssl\xc2\xa0", "GnuTLS", "oPENSSL"};
    Rng rng(a.seed * 7 + a.worker); for (int i = 0; i < 60; i++) { std::string b = (i & 1) ? "openssl" : "gnutls"; int k = rng.below(4); size_t pos = rng.below(b.size() + 1); if (k == 0) b.insert(pos, 1, (char)(0x20 + rng.below(0x5f))); else if (k == 1 && pos < b.size()) b.erase(pos, 1); else if (k == 2 && pos < b.size()) b[pos] ^= 0x20; else b += b; names.push_back(b); }
    for (auto &n : names) for (int start = 0; start < 2; start++) { std::string d, r = run_names(n, start, &d); st.evaluations++; st.cls("provider-names"); if (st.want_sample()) st.sample(d); if (n != "openssl" && n != "gnutls") st.nontrivial(fnv(n) + start); if (!r.empty()) st.violation("C12:" + r, "provider switch by name misbehaves for " + d, d); }
    for (int id = -5; id <= 10; id++) for (int start = 0; start < 2; start++) { std::string d, r = run_ids(id, start, &d); st.evaluations++; st.cls("provider-ids"); st.nontrivial(mix(id + 100, start)); if (!r.empty()) st.violation("C12:" + r, "provider switch by id misbehaves for " + d, d); }
    for (int i = 0; i < 20; i++) { int id = (int)rng.next(); if (id == 1 || id == 2) continue; std::string d, r = run_ids(id, i & 1, &d); st.evaluations++; st.cls("provider-ids"); if (!r.empty()) st.violation("C12:" + r, "provider switch by id misbehaves for " + d, d); }
    if (a.worker == 0) for (const char *v : {"openssl", "gnutls", "GnuTLS", "gnutls ", "mbedtls", "", "x", "opensslx", "gnutl"}) { std::string d, r = run_env(argv[0], v, &d); st.evaluations++; st.cls("JWT_CRYPTO-env-values"); st.nontrivial(fnv(std::string("env") + v)); if (!r.empty()) st.violation("C12:" + r, "JWT_CRYPTO handling: " + d, d); }
  }
  // ---- (2)(3)(5) cross grid
  { int idx = 0; int reps = a.thorough() ? 12 : 2;
    for (auto &cell : cells) for (int l = 0; l < 2; l++) for (int s = 0; s < 2; s++) for (int v2 = 0; v2 < 2; v2++) for (int rep = 0; rep < reps; rep++) {
      if ((idx++ % a.nworkers) != a.worker) continue;
      std::string d, r = run_cross(cell.first, cell.second, l, s, v2, rep + (int)a.seed * 100, &d); st.evaluations++; st.cls("cross-provider-cells"); if (st.want_sample()) st.sample(d); if (s != v2 || l != s) st.nontrivial_distinct();
      if (!r.empty()) st.violation("C12:" + r, "cross-provider use fails: " + d, d);
    } }
  // ---- key rotation at the same address
  { int idx = 0; for (int pi = 0; pi < 9; pi++) for (int l = 0; l < 2; l++) for (int f = 0; f < 2; f++) { if ((idx++ % a.nworkers) != a.worker) continue;
      std::string d, r = run_rotation(pi, l, f, &d); st.evaluations++; st.cls("key-rotation-cells"); st.nontrivial(mix(fnv("rot"), mix(pi, l * 2 + f)));
      if (!r.empty()) st.violation("C12:" + r, "providers disagree after a key rotation: " + d, d); } }
  // ---- ECDSA volume: each provider must accept the other's signatures also when r or s is short (1/128 per signature)
  { int per = a.thorough() ? 2500 : 220;
    for (auto &cell : cells) { const KeySpec &k = *KEYS[cell.first]; if (k.kind != K_EC) continue; int nn = k.bits == 521 ? per * 2 : per;   // P-521: the top octet holds one bit, so a half that lacks TWO octets occurs once in 512 signatures - enough of them to see it many times
      for (int i = 0; i < nn && st.violations.empty(); i++) { int s = i & 1; std::string d, r = run_cross(cell.first, cell.second, s, s, 1 - s, 1000 + i * a.nworkers + a.worker + (int)a.seed * 1000000, &d); st.evaluations++; st.cls("ecdsa-cross-volume"); st.nontrivial_distinct();
        if (!r.empty()) st.violation("C12:" + r, "cross-provider use fails: " + d, d); } } }
  if (!st.violations.empty()) return finish();
  // ---- (1) verdict agreement on valid and mutated tokens
  uint64_t n = a.thorough() ? 60000 : 1500;
  std::string params = "seed=" + std::to_string(a.seed * 1000 + a.worker) + " max_success=" + std::to_string(n) + " max_size=100";
  setenv("RC_PARAMS", params.c_str(), 1);
  Case lastfail; std::string lastwhy;
  bool ok = rc::check("C12: same verdict under both providers", [&]() {
    if (v::shrink_exhausted()) return;
    Case c; auto cell = *rc::gen::elementOf(cells); c.key = cell.first; c.algi = cell.second; c.cfg = *UNI(0, 2); c.pay = *UNI(0, NPAY);
    int nm = *rc::gen::weightedElement<int>({{2, 0}, {10, 1}, {4, 2}});
    for (int i = 0; i < nm; i++) { Mut m; m.kind = *UNI<int>(0, (int)M_NKINDS); m.a = *UNI(0, 1 << 20); m.b = *UNI(0, 1 << 20); m.c = *UNI(0, 1 << 20); c.muts.push_back(m); }
    const KeySpec &k = *KEYS[c.key]; jwt_alg_t alg = ALGS[c.algi].alg;
    // base token made by either provider's builder or by the reference signer
    int maker = *UNI(0, 3); std::string t;
    if (maker == 2) t = base_token(k, alg, c.pay);
    else { set_provider(maker); JwkOpts o; o.priv = true; static std::map<std::string, std::unique_ptr<LKey>> PK; auto &pk = PK[k.name]; if (!pk) pk = std::make_unique<LKey>(jwk_json(k, o));
      jwt_builder_t *b = jwt_builder_new(); jwt_builder_setkey(b, alg, pk->item); jwt_value_t v = val_json(nullptr, PAYLOADS[c.pay], 1); jwt_builder_claim_set(b, &v); jwt_builder_enable_iat(b, 0); char *o2 = jwt_builder_generate(b); if (o2) { t = o2; free(o2); } jwt_builder_free(b); if (t.empty()) t = base_token(k, alg, c.pay); }
    for (auto &m : c.muts) t = apply(k, alg, c.pay, t, m);
    c.token = t.substr(0, t.find('\0'));
    std::string r = run_verdict_case(c, true);
    if (!r.empty()) { std::string sig = "C12:" + r; if (st.is_known(sig)) { st.known_hits[sig]++; return; } lastfail = c; lastwhy = r; v::fail_seen()++; RC_FAIL(r); }
  });
  if (!ok && !lastwhy.empty()) st.violation("C12:" + lastwhy, "OpenSSL and GnuTLS disagree on a token that is RFC-valid or not validly signed at all", case_json(lastfail));
  return finish();
}
