// C07 shape: structure-aware JWK generator: for every member of the per-kty member list the input picks
// absent / null / number / bool / array / object / "" / non-base64 / wrong-length base64 / correct / raw fuzzer string
#include "fz_jwks.h"
#include <fuzzer/FuzzedDataProvider.h>
extern "C" int LLVMFuzzerInitialize(int *, char ***) { init_jwks(); return 0; }

static std::map<std::string, std::string> correct_members(const KeySpec &k) {
  std::map<std::string, std::string> m; JwkOpts o; std::string js = jwk_json(k, o); J j = J::parse(js);
  const char *key; json_t *val; json_object_foreach(j.p, key, val) { if (json_is_string(val)) m[key] = json_string_value(val); }
  return m;
}
static const char *MEMBERS[] = {"kty", "alg", "use", "key_ops", "kid", "crv", "x", "y", "d", "n", "e", "p", "q", "dp", "dq", "qi", "k", "zz"};
extern "C" int LLVMFuzzerTestOneInput(const uint8_t *data, size_t size) {
  init_jwks();
  FuzzedDataProvider fdp(data, size);
  int entry = fdp.ConsumeIntegralInRange<int>(0, 7), prov = fdp.ConsumeIntegralInRange<int>(0, 1); bool guard = fdp.ConsumeBool(); bool pollute = fdp.ConsumeBool();
  int wrap = fdp.ConsumeIntegralInRange<int>(0, 4);  // 0 bare object, 1 keys array, 2 keys non-array, 3 top-level array, 4 scalar
  int nkeys = wrap == 1 ? fdp.ConsumeIntegralInRange<int>(0, 4) : 1;
  static const char *KN[] = {"rsa_2048", "ec_p256", "ec_p384", "ec_p521", "ec_k256", "ed25519", "ed448", "oct64", "oct32"};
  std::string doc, objs;
  for (int ki = 0; ki < nkeys; ki++) {
    const KeySpec &k = POOL.get(KN[fdp.ConsumeIntegralInRange<int>(0, 8)]);
    static std::map<std::string, std::map<std::string, std::string>> CM;
    if (!CM.count(k.name)) CM[k.name] = correct_members(k);
    auto &cm = CM[k.name];
    std::string o;
    for (const char *mn : MEMBERS) {
      bool has = cm.count(mn) > 0;
      int st = fdp.ConsumeIntegralInRange<int>(0, 15);
      std::string v;
      if (st >= 11) st = has ? 9 : 0;      // bias: mostly correct / absent so that deep parser states are reached
      switch (st) {
      case 0: continue;
      case 1: v = "null"; break; case 2: v = std::to_string(fdp.ConsumeIntegral<int32_t>()); break; case 3: v = fdp.ConsumeBool() ? "true" : "false"; break;
      case 4: v = "[\"sign\",\"verify\",1,null,\"" + fdp.ConsumeRandomLengthString(8) + "\"]"; for (auto &c : v) if ((unsigned char)c < 0x20 || c == '\\' || (unsigned char)c >= 0x7f) c = 'x'; v = "[" + v.substr(1); break;
      case 5: v = "{\"a\":1}"; break; case 6: v = "\"\""; break; case 7: v = "\"!!!not*base64!!!\""; break;
      case 8: { std::string b = fdp.ConsumeBytesAsString(fdp.ConsumeIntegralInRange<int>(0, 70)); v = "\"" + b64u_enc(b) + "\""; break; }
      case 9: v = has ? jstr(cm[mn]) : "\"x\""; break;
      case 10: { std::string s = fdp.ConsumeRandomLengthString(24); if (!s.empty() && (s[0] & 3) == 0) s = "%s%s%s%s%n" + s; v = jstr(s); break; }
      }
      if (!strcmp(mn, "kid") && st == 9) v = "\"tag-" + std::to_string(ki) + "\"";
      if (!o.empty()) o += ",";
      o += std::string("\"") + mn + "\":" + v;
    }
    if (!objs.empty()) objs += ",";
    objs += "{" + o + "}";
  }
  switch (wrap) {
  case 0: doc = objs.empty() ? "{}" : objs.substr(0, objs.find("},{") == std::string::npos ? objs.size() : objs.find("},{") + 1); break;
  case 1: doc = "{\"keys\":[" + objs + "]}"; break;
  case 2: doc = "{\"keys\":" + (objs.empty() ? std::string("1") : objs) + "}"; break;
  case 3: doc = "[" + objs + "]"; break;
  case 4: doc = fdp.ConsumeBool() ? "123" : "\"str\""; break;
  }
  G_PAGEGUARD = guard && pollute && (entry & 1);   // (no new input byte: existing corpus entries keep their meaning) one combination in eight runs with the page-guard allocator
  load_with_oracle(entry, prov, doc, guard, pollute);
  return 0;
}
