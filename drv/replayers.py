import plist, os
def replay(ctx, path):
    fn = plist.REPLAYERS.get(ctx.pid)
    if not fn:
        print("no replayer for", ctx.pid); return 2
    if fn(ctx, path):
        print(f"VIOLATION property={ctx.pid} replay={path}")
        return 1
    print(f"replay passes: property={ctx.pid} {path}")
    return 0
