// C07 raw: [entry | prov<<3 | application-allocator<<4 | error-queue-not-empty<<5] + document bytes
#include "fz_jwks.h"
extern "C" int LLVMFuzzerInitialize(int *, char ***) { init_jwks(); return 0; }
extern "C" int LLVMFuzzerTestOneInput(const uint8_t *data, size_t size) {
  init_jwks();
  if (size < 1) return 0;
  G_PAGEGUARD = (data[0] >> 6) & 1;
  load_with_oracle(data[0] & 7, (data[0] >> 3) & 1, std::string((const char *)data + 1, size - 1), (data[0] >> 4) & 1, (data[0] >> 5) & 1);
  return 0;
}
