#!/usr/bin/env python3
"""Regenerates /verif/MANIFEST.json from drv/manifest_data.py"""
import json, os, sys
sys.path.insert(0, os.path.dirname(os.path.abspath(__file__)))
import manifest_data as M
VERIF = os.path.dirname(os.path.dirname(os.path.abspath(__file__)))
props = [json.loads(l)["id"] for l in open(os.path.join(VERIF, "properties.jsonl"))]
checks = []
for pid in props:
    if pid in M.CLAIMS:
        c = M.CLAIMS[pid]
        checks.append({
            "property_id": pid,
            "quick_cmd": f"./check.py {pid} --tier quick",
            "thorough_cmd": f"./check.py {pid} --tier thorough",
            "evidence_file": f"/verif/evidence/{pid}.json",
            "replay_cmd_template": f"./check.py {pid} --replay {{path}}",
            "engine": c["engine"],
            "level_claimed": {"category": c["level"], "text": c["text"], "design_ref": c["design_ref"]},
            "level_note": c["note"],
            "technique": c["technique"],
        })
na = [{"property_id": p, "reason": M.NOT_APPLICABLE.get(p, "check not built yet in this session; planned (DESIGN.md section 4)")} for p in props if p not in M.CLAIMS]
man = {
    "version": 1,
    "setup_cmd": "./check.py --setup",
    "hooks": {
        "guard": "LIBJWT_VERIF",
        "enable": "no source hooks are needed: checks build /repo with its own CMake (clang, ASan/UBSan/TSan flags via CMAKE_C_FLAGS), link libjwt.a statically, wrap time() at link time and inject allocation faults through the public jwt_set_alloc",
        "baseline_off_cmd": "cmake -G Ninja -S /repo -B /tmp/libjwt-baseline -DCMAKE_C_FLAGS=-Wno-error -DWITH_GNUTLS=ON -DWITH_TESTS=ON && cmake --build /tmp/libjwt-baseline && ctest --test-dir /tmp/libjwt-baseline -j8 --timeout 900",
        "source_commits": [],
        "add_only": True,
    },
    "engines": M.ENGINES,
    "checks": checks,
    "notes": M.NOTES,
    "not_applicable": na,
}
json.dump(man, open(os.path.join(VERIF, "MANIFEST.json"), "w"), indent=1)
print("wrote MANIFEST.json with", len(checks), "checks;", len(na), "not claimed")
