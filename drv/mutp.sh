#!/bin/sh
# usage: drv/mutp.sh <patch-file|-> <Cxx> [tier]  -- run a check against a scratch copy of /repo with a hand-made patch applied
# (for my own mutants; changes written by the sub-agents are applied to /repo itself with drv/seedtest.sh)
export VERIF_EVIDENCE_DIR=/verif/out/evidence-scratch
set -e
D=$(mktemp -d /tmp/mut-XXXXXX)
rsync -a --exclude _build --exclude .git /repo/ $D/
if [ "$1" = "-" ]; then (cd $D && patch -p1 -s); else (cd $D && patch -p1 -s < "$(readlink -f $1)"); fi
cd /verif; VERIF_REPO=$D ./check.py $2 --tier ${3:-quick} 2>&1 | grep -v "^\[check\]" | grep -v "^  what" | tail -4
rm -rf $D
