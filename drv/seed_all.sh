#!/bin/sh
# runs every kept seeded change (seeded/*/patch.diff) against the quick check of its property; prints one line per seed.
# usage: drv/seed_all.sh [pattern]   (touches /repo's working tree while it runs - nothing else may use /repo meanwhile)
cd /verif || exit 2
for d in seeded/${1:-*}/; do
  n=$(basename $d); p=$(echo $n | cut -c1-3)
  # a seed whose defect lives in a command-line tool is run against the check that drives the tools (meta.json: caught_by)
  cb=$(python3 -c "import json,sys,re; m=json.load(open('$d/meta.json')); r=re.search(r'check.py (C\d\d)', m.get('caught_by','')); print(r.group(1) if r else '')" 2>/dev/null); [ -n "$cb" ] && p=$cb
  [ -f $d/patch.diff ] || continue
  if [ -f $d/meta.json ] && grep -q '"kept_as_seed": false' $d/meta.json; then echo "$n not-kept"; continue; fi
  r=$(drv/seedtest.sh $d/patch.diff $p 2>&1 | grep -E "^OK|VIOLATION|signature|BUILD|refusing|does not apply" | head -2 | tr '\n' ' ' | cut -c1-230)
  case "$r" in *VIOLATION*) echo "$n CAUGHT $r";; *) echo "$n MISSED $r";; esac
done
