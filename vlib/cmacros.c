/* cmacros.c - the value macros of jwt.h, as an application written in C uses them (they are C only: the harnesses, which are C++,
 * otherwise fill jwt_value_t with helpers that mirror them). Linked into the C15 harness. The *_self functions are the idiom
 * "read a value, then write one derived from it through the same jwt_value_t": the macro's arguments read the very struct it fills. */
#include <jwt.h>

jwt_value_t *cm_set_int(jwt_value_t *v, const char *n, long x) { jwt_set_SET_INT(v, n, x); return v; }
jwt_value_t *cm_set_str(jwt_value_t *v, const char *n, const char *x) { jwt_set_SET_STR(v, n, x); return v; }
jwt_value_t *cm_set_bool(jwt_value_t *v, const char *n, int x) { jwt_set_SET_BOOL(v, n, x); return v; }
jwt_value_t *cm_set_json(jwt_value_t *v, const char *n, const char *x) { jwt_set_SET_JSON(v, n, x); return v; }
jwt_value_t *cm_get_int(jwt_value_t *v, const char *n) { jwt_set_GET_INT(v, n); return v; }
jwt_value_t *cm_get_str(jwt_value_t *v, const char *n) { jwt_set_GET_STR(v, n); return v; }
jwt_value_t *cm_get_bool(jwt_value_t *v, const char *n) { jwt_set_GET_BOOL(v, n); return v; }
jwt_value_t *cm_get_json(jwt_value_t *v, const char *n) { jwt_set_GET_JSON(v, n); return v; }

jwt_value_t *cm_set_int_self(jwt_value_t *v, const char *n, long add) { jwt_set_SET_INT(v, n, v->int_val + add); return v; }
jwt_value_t *cm_set_bool_self_not(jwt_value_t *v, const char *n) { jwt_set_SET_BOOL(v, n, !v->bool_val); return v; }
jwt_value_t *cm_set_str_self(jwt_value_t *v, const char *n) { jwt_set_SET_STR(v, n, v->str_val); return v; }
jwt_value_t *cm_set_json_self(jwt_value_t *v, const char *n) { jwt_set_SET_JSON(v, n, v->json_val); return v; }
jwt_value_t *cm_set_int_samename(jwt_value_t *v, long x) { jwt_set_SET_INT(v, v->name, x); return v; }
