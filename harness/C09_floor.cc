// C09 - key-strength floor for signing and verification: exhaustive grid.
#include "vlib.h"
#include "vkeys.h"
using namespace v;

struct Cell { int prov; std::string key; int octlen; jwt_alg_t alg; int op; int flag = 0; int attr = 0; int warm = 0; };   // attr 1: the JWK itself carries "alg": <the algorithm in use> (1: pinned by the key and by setkey; 2: by the key alone, setkey gets JWT_ALG_NONE); attr 3: members written with '=' padding  // op 0 generate, 1 verify; flag 1: the JWK carries "alg":256, so the item is flagged with an error although its key material loaded (setkey takes such items)
static Cell CUR;
static std::string cell_json(const Cell &c) { return "{\"prov\":" + std::to_string(c.prov) + ",\"key\":\"" + c.key + "\",\"octlen\":" + std::to_string(c.octlen) + ",\"alg\":\"" + jwt_alg_str(c.alg) + "\",\"op\":\"" + (c.op ? "verify" : "generate") + "\",\"flag\":" + std::to_string(c.flag) + ",\"attr\":" + std::to_string(c.attr) + ",\"warm\":" + std::to_string(c.warm) + "}"; }

static std::map<std::string, KeySpec> FIX;
static const KeySpec &fixture(const std::string &n) { auto it = FIX.find(n); if (it != FIX.end()) return it->second; return FIX[n] = load_fixture(n); }
static bool gnutls_supported(const KeySpec &k, jwt_alg_t a) { if (a == JWT_ALG_ES256K) return false; if (k.kind == K_EC) return k.crv == "P-256" || k.crv == "P-384" || k.crv == "P-521"; return true; }

// "warm" cells: the very builder / checker has just SUCCEEDED with this very key under another algorithm of the family for which the key is
// adequate (HS256 with 32 octets, ES256 with P-256, RS256 ...); the floor of the cell's algorithm holds all the same. warm 1: a second setkey
// names the cell's algorithm; warm 2: the callback names it (setkey still says the warm-up algorithm).
static jwt_alg_t warm_alg(const KeySpec &k, jwt_alg_t not_this) {
  static const jwt_alg_t all[] = {JWT_ALG_HS256, JWT_ALG_HS384, JWT_ALG_HS512, JWT_ALG_RS256, JWT_ALG_PS384, JWT_ALG_ES256, JWT_ALG_ES256K, JWT_ALG_ES384, JWT_ALG_ES512, JWT_ALG_EDDSA};
  for (jwt_alg_t a : all) { const AlgInfo *ai = alg_info(a); if (a != not_this && ai && ai->kind == k.kind && strength_ok(k, a)) return a; }
  return JWT_ALG_NONE;
}
static int warm_cb_b(jwt_t *, jwt_config_t *cfg) { if (cfg->ctx) cfg->alg = *(jwt_alg_t *)cfg->ctx; return 0; }
static std::string run_cell(const Cell &c, const KeySpec &k, bool *nt) {
  Stats &st = stats(); CUR = c; set_provider(c.prov); set_now(1700000000);
  bool ok_strength = strength_ok(k, c.alg);
  // "within one step of a threshold"
  if (nt) { *nt = false; if (k.kind == K_OCT) { int need = hs_min_bits(c.alg) / 8; *nt = abs(c.octlen - need) <= 1; } else if (k.kind == K_RSA) *nt = k.bits >= 2040 && k.bits <= 2056; else *nt = true; }
  JwkOpts o; if (c.flag) o.alg_raw = "256"; else if (c.attr == 3) o.eq_pad = true; else if (c.attr) o.alg = jwt_alg_str(c.alg); o.priv = true; LKey priv(jwk_json(k, o)); o.priv = false; LKey pub(jwk_json(k, o));
  if (c.flag) {   // only the "never succeeds below the floor" direction is demanded of an item that reports an error
    if (!priv.item || !pub.item) return ""; st.cls("flagged-item-with-loaded-key"); if (ok_strength) { st.cls("flagged-item-at-or-above-floor(not-judged)"); return ""; }
  } else
  if (!priv.ok() || !pub.ok()) {
    // a key the importer itself refuses is below every floor by construction (e.g. curve unknown to OpenSSL); every key of this grid
    // is one OpenSSL loads, so for a key at or above the floor a refusal means "keys at or above the floor work" is broken
    st.cls("key-refused-by-importer"); return ok_strength ? std::string("adequate-key-refused-by-importer:") + (priv.item && jwks_item_error_msg(priv.item) ? jwks_item_error_msg(priv.item) : "?") : std::string();
  }
  const AlgInfo *ai = alg_info(c.alg);
  if (c.op == 0) {
    jwt_builder_t *b = jwt_builder_new(); std::string r;
    jwt_alg_t wa = (c.warm == 1 || c.warm == 2) ? warm_alg(k, c.alg) : JWT_ALG_NONE, cell_alg = c.alg; bool warmed = false;
    if (wa != JWT_ALG_NONE && !(c.prov == 1 && !gnutls_supported(k, wa)) && !jwt_builder_setkey(b, wa, priv.item)) { char *w = jwt_builder_generate(b); warmed = w != nullptr; free(w); if (warmed) st.cls("warm-cells(object-just-succeeded-with-this-key-under-another-alg)"); }
    bool failed_first = false;
    if (c.warm == 3) {   // the object has just been REFUSED with a key below the floor (error not cleared): an adequate key works all the same
      static KeySpec weak = oct_key("oct16", 16); JwkOpts wo; LKey wk(jwk_json(weak, wo)); if (wk.item && !jwt_builder_setkey(b, JWT_ALG_HS256, wk.item)) { char *w = jwt_builder_generate(b); failed_first = w == nullptr; free(w); }
      if (failed_first) st.cls("cells-after-a-refusal-on-the-same-object"); }
    if (warmed && c.warm == 2) jwt_builder_setcb(b, warm_cb_b, &cell_alg);
    else if (jwt_builder_setkey(b, c.attr == 2 ? JWT_ALG_NONE : c.alg, priv.item)) { jwt_builder_free(b); return ok_strength ? "setkey-refuses-adequate-key" : ""; }
    if (!failed_first) jwt_builder_error_clear(b);
    char *out = jwt_builder_generate(b);
    int flag = jwt_builder_error(b); std::string msg = jwt_builder_error_msg(b) ? jwt_builder_error_msg(b) : "";
    if (out && !ok_strength) r = std::string("generate-succeeds-below-floor:") + (k.kind == K_OCT ? "hmac" : k.kind == K_RSA ? "rsa" : k.kind == K_EC ? "ec" : "okp");
    else if (!out && ok_strength && (c.prov == 0 || gnutls_supported(k, c.alg))) r = "generate-fails-at-or-above-floor:" + msg.substr(0, 40);
    else if (!out && (!flag || msg.empty())) r = "generate-null-without-error";
    else if (out) {
      // the produced token must verify with the public key under the same provider
      jwt_checker_t *ch = jwt_checker_new(); jwt_checker_setkey(ch, c.attr == 2 ? JWT_ALG_NONE : c.alg, pub.item);
      if (jwt_checker_verify(ch, out)) r = std::string("token-from-adequate-key-does-not-verify:") + jwt_checker_error_msg(ch);
      jwt_checker_free(ch);
      if (r.empty() && !ref_valid(k, out)) r = "token-from-adequate-key-invalid-for-reference-verifier";
    }
    st.cls(out ? "generate-ok" : "generate-refused"); free(out); jwt_builder_free(b); return r;
  } else {
    // a token signed *validly* with that key by the reference signer
    std::string hdr = std::string("{\"alg\":\"") + jwt_alg_str(c.alg) + "\"}", tok;
    bool family = ai && ai->kind == k.kind;
    if (family) tok = ref_token(k, c.alg, hdr, "{\"sub\":\"floor\"}");
    TokParts tp = split_token(tok);
    bool have_sig = family && tp.ok && !tp.s.empty();
    if (!have_sig) tok = b64u_enc(hdr) + "." + b64u_enc("{\"sub\":\"floor\"}") + "." + b64u_enc(std::string(64, 'x'));
    if (!family) {   // key of another family: the strongest attempt is a signature this very key makes with an algorithm of ITS family
      jwt_alg_t na = k.kind == K_OCT ? JWT_ALG_HS256 : k.kind == K_RSA ? JWT_ALG_RS256 : k.kind == K_OKP ? JWT_ALG_EDDSA : k.bits == 384 ? JWT_ALG_ES384 : k.bits == 521 ? JWT_ALG_ES512 : JWT_ALG_ES256;
      std::string in = b64u_enc(hdr) + "." + b64u_enc("{\"sub\":\"floor\"}"), sg = ref_sign(k, na, in);
      if (!sg.empty()) { tok = in + "." + b64u_enc(sg); st.cls("cross-family-token-signed-with-the-key's-native-alg"); }
    }
    jwt_checker_t *ch = jwt_checker_new(); std::string r;
    jwt_alg_t wa = (c.warm == 1 || c.warm == 2) ? warm_alg(k, c.alg) : JWT_ALG_NONE, cell_alg = c.alg; bool warmed = false;
    if (wa != JWT_ALG_NONE && !(c.prov == 1 && !gnutls_supported(k, wa)) && !jwt_checker_setkey(ch, wa, pub.item)) {
      std::string wt = ref_token(k, wa, std::string("{\"alg\":\"") + jwt_alg_str(wa) + "\"}", "{\"sub\":\"warm\"}"); warmed = !wt.empty() && jwt_checker_verify(ch, wt.c_str()) == 0;
      if (warmed) st.cls("warm-cells(object-just-succeeded-with-this-key-under-another-alg)"); }
    bool failed_first = false;
    if (c.warm == 3) { static KeySpec weak = oct_key("oct16", 16); JwkOpts wo; LKey wk(jwk_json(weak, wo));
      if (wk.item && !jwt_checker_setkey(ch, JWT_ALG_HS256, wk.item)) { std::string wt = ref_token(weak, JWT_ALG_HS256, "{\"alg\":\"HS256\"}", "{\"sub\":\"weak\"}"); failed_first = jwt_checker_verify(ch, wt.c_str()) != 0; }
      if (failed_first) st.cls("cells-after-a-refusal-on-the-same-object"); }
    if (warmed && c.warm == 2) jwt_checker_setcb(ch, warm_cb_b, &cell_alg);
    else if (jwt_checker_setkey(ch, c.attr == 2 ? JWT_ALG_NONE : c.alg, pub.item)) { jwt_checker_free(ch); return ok_strength ? "setkey-refuses-adequate-key" : ""; }
    if (!failed_first) jwt_checker_error_clear(ch);
    int ret = jwt_checker_verify(ch, tok.c_str()); int flag = jwt_checker_error(ch); std::string msg = jwt_checker_error_msg(ch) ? jwt_checker_error_msg(ch) : "";
    if (ret == 0 && !ok_strength) r = std::string("verify-succeeds-below-floor:") + (k.kind == K_OCT ? "hmac" : k.kind == K_RSA ? "rsa" : k.kind == K_EC ? "ec" : "okp");
    else if (ret != 0 && ok_strength && have_sig && (c.prov == 0 || gnutls_supported(k, c.alg))) r = "verify-fails-at-or-above-floor:" + msg.substr(0, 40);
    else if (ret != 0 && (!flag || msg.empty())) r = "verify-fails-without-error";
    st.cls(ret == 0 ? "verify-ok" : "verify-refused"); if (have_sig && !ok_strength) st.cls("validly-signed-token-under-weak-key");
    jwt_checker_free(ch); return r;
  }
}

int main(int argc, char **argv) {
  Args a = parse_args(argc, argv);
  cur_case() = [] { return cell_json(CUR); };
  Stats &st = stats();
  std::vector<std::string> rsa = {"rsa_512", "rsa_1024", "rsa_1536", "rsa_2040", "rsa_2047", "rsa_2048", "rsa_2050", "rsa_2056", "rsa_3072", "rsa_4096"};
  std::vector<std::string> ec = {"ec_p256", "ec_p384", "ec_p521", "ec_k256", "ec_p224", "ec_bp256", "ec_bp384", "ec_bp512", "ec_bp512t", "ec_bp320", "ec_p192", "ec_b571"};   // every curve OpenSSL will load, also those whose size is NEAR an algorithm's (512 vs 521, 570 vs 521)
  std::vector<std::string> okp = {"ed25519", "ed448"};
  const jwt_alg_t HS[] = {JWT_ALG_HS256, JWT_ALG_HS384, JWT_ALG_HS512}, RS[] = {JWT_ALG_RS256, JWT_ALG_RS384, JWT_ALG_RS512, JWT_ALG_PS256, JWT_ALG_PS384, JWT_ALG_PS512}, ES[] = {JWT_ALG_ES256, JWT_ALG_ES256K, JWT_ALG_ES384, JWT_ALG_ES512};
  if (!a.replay.empty()) {
    J j = J::parse(read_file(a.replay)); if (!j) return 2;
    Cell c; c.prov = (int)json_integer_value(json_object_get(j.p, "prov")); c.key = json_string_value(json_object_get(j.p, "key")); c.octlen = (int)json_integer_value(json_object_get(j.p, "octlen"));
    c.alg = jwt_str_alg(json_string_value(json_object_get(j.p, "alg"))); c.op = !strcmp(json_string_value(json_object_get(j.p, "op")), "verify"); c.flag = (int)json_integer_value(json_object_get(j.p, "flag")); c.attr = (int)json_integer_value(json_object_get(j.p, "attr")); c.warm = (int)json_integer_value(json_object_get(j.p, "warm"));
    KeySpec k = c.octlen > 0 ? oct_key("oct" + std::to_string(c.octlen), c.octlen) : fixture(c.key);
    std::string r = run_cell(c, k, nullptr); if (!r.empty()) fprintf(stderr, "replay: %s\n", r.c_str());
    return r.empty() ? 0 : 3;
  }
  std::vector<std::pair<Cell, KeySpec>> cells;
  for (int prov = 0; prov < 2; prov++) for (int op = 0; op < 2; op++) {
    for (int len = 1; len <= 160; len++) for (auto al : HS) cells.push_back({Cell{prov, "oct", len, al, op}, oct_key("oct" + std::to_string(len), len)});
    for (auto &n : rsa) for (auto al : RS) cells.push_back({Cell{prov, n, 0, al, op}, fixture(n)});
    for (auto &n : ec) for (auto al : ES) cells.push_back({Cell{prov, n, 0, al, op}, fixture(n)});
    for (auto &n : okp) cells.push_back({Cell{prov, n, 0, JWT_ALG_EDDSA, op}, fixture(n)});
    // cross-family probes: the floor of one family must not be satisfied by a key of another
    cells.push_back({Cell{prov, "rsa_2048", 0, JWT_ALG_HS256, op}, fixture("rsa_2048")}); cells.push_back({Cell{prov, "oct", 64, JWT_ALG_RS256, op}, oct_key("oct64", 64)});
    cells.push_back({Cell{prov, "ed25519", 0, JWT_ALG_ES256, op}, fixture("ed25519")}); cells.push_back({Cell{prov, "ec_p256", 0, JWT_ALG_EDDSA, op}, fixture("ec_p256")});
    cells.push_back({Cell{prov, "ec_k256", 0, JWT_ALG_EDDSA, op}, fixture("ec_k256")}); cells.push_back({Cell{prov, "rsa_2048", 0, JWT_ALG_EDDSA, op}, fixture("rsa_2048")}); cells.push_back({Cell{prov, "ed448", 0, JWT_ALG_ES512, op}, fixture("ed448")});
    cells.push_back({Cell{prov, "ec_p256", 0, JWT_ALG_RS256, op}, fixture("ec_p256")}); cells.push_back({Cell{prov, "rsa_2048", 0, JWT_ALG_ES256, op}, fixture("rsa_2048")}); cells.push_back({Cell{prov, "oct", 64, JWT_ALG_EDDSA, op}, oct_key("oct64", 64)});
  }
  // further cross-family probes: oct keys of exactly the size the other family's test looks for
  for (int prov = 0; prov < 2; prov++) for (int op = 0; op < 2; op++) {
    cells.push_back({Cell{prov, "oct", 32, JWT_ALG_ES256, op}, oct_key("oct32", 32)}); cells.push_back({Cell{prov, "oct", 32, JWT_ALG_ES256K, op}, oct_key("oct32", 32)}); cells.push_back({Cell{prov, "oct", 32, JWT_ALG_EDDSA, op}, oct_key("oct32", 32)});
    cells.push_back({Cell{prov, "oct", 48, JWT_ALG_ES384, op}, oct_key("oct48", 48)}); cells.push_back({Cell{prov, "oct", 57, JWT_ALG_EDDSA, op}, oct_key("oct57", 57)}); cells.push_back({Cell{prov, "oct", 66, JWT_ALG_ES512, op}, oct_key("oct66", 66)});
    cells.push_back({Cell{prov, "oct", 256, JWT_ALG_RS256, op}, oct_key("oct256", 256)}); cells.push_back({Cell{prov, "oct", 256, JWT_ALG_PS512, op}, oct_key("oct256", 256)}); cells.push_back({Cell{prov, "oct", 512, JWT_ALG_RS512, op}, oct_key("oct512", 512)});
  }
  // every same-family cell again with a key that names the algorithm itself ("alg" member)
  { size_t n0 = cells.size(); for (size_t i = 0; i < n0; i++) { const AlgInfo *ai = alg_info(cells[i].first.alg); if (!ai || ai->kind != cells[i].second.kind) continue; auto c2 = cells[i]; c2.first.attr = 1; cells.push_back(c2); c2.first.attr = 2; cells.push_back(c2); } }
  // every cell again with the JWK members written with '=' padding (the decoded length, not the text length, is the key size)
  { size_t n0 = cells.size(); for (size_t i = 0; i < n0; i++) { if (cells[i].first.attr) continue; auto c2 = cells[i]; c2.first.attr = 3; cells.push_back(c2); } }
  // every cell again with an item that is flagged with an error although its key material loaded
  { size_t n0 = cells.size(); for (size_t i = 0; i < n0; i++) { if (cells[i].first.attr) continue; if (cells[i].first.key == "oct" && cells[i].first.octlen % 8 && cells[i].first.octlen > 70) continue; auto c2 = cells[i]; c2.first.flag = 1; cells.push_back(c2); } }
  // every same-family plain cell again on an object that has just succeeded with the key under another algorithm (oct keys: lengths around the thresholds)
  { size_t n0 = cells.size(); for (size_t i = 0; i < n0; i++) { const Cell &c0 = cells[i].first; const AlgInfo *ai = alg_info(c0.alg); if (!ai || ai->kind != cells[i].second.kind || c0.attr || c0.flag) continue;
      if (c0.key == "oct" && !(c0.octlen >= 30 && c0.octlen <= 66)) continue; if (warm_alg(cells[i].second, c0.alg) == JWT_ALG_NONE) continue;
      auto c2 = cells[i]; c2.first.warm = 1; cells.push_back(c2); c2.first.warm = 2; cells.push_back(c2); }
    for (size_t i = 0; i < n0; i++) { const Cell &c0 = cells[i].first; const AlgInfo *ai = alg_info(c0.alg); if (!ai || ai->kind != cells[i].second.kind || c0.attr || c0.flag) continue;
      if (c0.key == "oct" && !(c0.octlen >= 30 && c0.octlen <= 66)) continue; auto c2 = cells[i]; c2.first.warm = 3; cells.push_back(c2); } }
  if (a.thorough() && a.worker == 0) {  // fresh RSA keys around the threshold
    static std::vector<KeySpec> fresh; for (const char *w : {"rsa2047", "rsa2048", "rsa1024"}) fresh.push_back(gen_key(w));
    for (auto &k : fresh) { FIX[k.name] = k; for (int prov = 0; prov < 2; prov++) for (int op = 0; op < 2; op++) for (auto al : RS) cells.push_back({Cell{prov, k.name, 0, al, op}, k}); }
  }
  for (size_t i = 0; i < cells.size(); i++) {
    if ((int)(i % a.nworkers) != a.worker) continue;
    bool nt = false; std::string r = run_cell(cells[i].first, cells[i].second, &nt);
    st.evaluations++; if (nt) st.nontrivial_distinct(); if (st.want_sample()) st.sample(cell_json(cells[i].first));
    if (!r.empty()) st.violation("C09:" + r, "strength floor violated in cell " + cell_json(cells[i].first), cell_json(cells[i].first));
  }
  st.extra["grid_cells"] = std::to_string(cells.size());
  return finish();
}
