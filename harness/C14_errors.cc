// C14 - error reporting contract: failure is always flagged and explained.
// Cause classes are enumerated on fresh and reused objects, then mixed randomly (rapidcheck).
#include <rapidcheck.h>
#include "vops.h"
#include "vcops.h"
#include <functional>
using namespace v; using namespace vo;
template <typename T> static rc::Gen<T> UNI(T lo, T hi) { return rc::gen::resize(100, rc::gen::inRange<T>(lo, hi)); }

static std::string TRACE, CASE;
static std::string contract_checker(int ret, jwt_checker_t *c) {
  int flag = jwt_checker_error(c); const char *m = jwt_checker_error_msg(c);
  if (ret != 0 && !flag) return "verify-fails-without-error-flag";
  if (ret == 0 && flag) return "verify-succeeds-with-error-flag";
  if (ret != 0 && (!m || !m[0])) return "verify-fails-with-empty-message";
  if (ret == 0 && m && m[0]) return "verify-succeeds-with-stale-message";
  return "";
}
static std::string contract_builder(const char *out, jwt_builder_t *b) {
  int flag = jwt_builder_error(b); const char *m = jwt_builder_error_msg(b);
  if (!out && !flag) return "generate-null-without-error-flag";
  if (out && flag) return "generate-token-with-error-flag";
  if (!out && (!m || !m[0])) return "generate-null-with-empty-message";
  return "";
}

// extra tokens: claim-type failures and signature failures per algorithm
static void more_tokens() {
  Pool &p = pool(); const KeySpec &oct = p.get("oct64"), &ec = p.get("ec_p256");
  auto H = [](const char *a) { return std::string("{\"alg\":\"") + a + "\",\"typ\":\"JWT\"}"; };
  TOKENS.push_back({"exp-wrong-type", ref_token(oct, JWT_ALG_HS256, H("HS256"), "{\"iss\":\"issuer\",\"exp\":\"soon\"}")});
  TOKENS.push_back({"nbf-wrong-type", ref_token(oct, JWT_ALG_HS256, H("HS256"), "{\"iss\":\"issuer\",\"nbf\":1.5}")});
  TOKENS.push_back({"iss-wrong-type", ref_token(oct, JWT_ALG_HS256, H("HS256"), "{\"iss\":7}")});
  TOKENS.push_back({"payload-array", ref_token(oct, JWT_ALG_HS256, H("HS256"), "[1,2]")});
  TOKENS.push_back({"alg-number", b64u_enc("{\"alg\":5}") + ".e30."});
  TOKENS.push_back({"alg-null", b64u_enc("{\"alg\":null}") + ".e30.AAAA"});
  TOKENS.push_back({"alg-array", b64u_enc("{\"alg\":[\"HS256\"]}") + ".e30.AAAA"});
  TOKENS.push_back({"header-array", b64u_enc("[1]") + ".e30."});
  TOKENS.push_back({"alg-case-variant", b64u_enc("{\"alg\":\"hs256\"}") + ".e30.AAAA"});
  { std::string t = ref_token(ec, JWT_ALG_ES256, H("ES256"), "{}"); TOKENS.push_back({"es256-sig-truncated", t.substr(0, t.size() - 4)}); TOKENS.push_back({"es256-sig-bad-base64", t.substr(0, t.size() - 2) + "!!"}); TOKENS.push_back({"es256-sig-one-char", t.substr(0, t.rfind('.') + 1) + "A"}); }
  { std::string t = ref_token(oct, JWT_ALG_HS512, H("HS512"), "{}"); TOKENS.push_back({"hs512-valid-other-alg", t}); }
  TOKENS.push_back({"hs256-valid-but-signed-by-other-key", ref_token(p.get("oct64b"), JWT_ALG_HS256, H("HS256"), "{}")});
  TOKENS.push_back({"eddsa-token", ref_token(p.get("ed25519"), JWT_ALG_EDDSA, H("EdDSA"), "{}")});
  TOKENS.push_back({"rs256-token", ref_token(p.get("rsa_2048"), JWT_ALG_RS256, H("RS256"), "{\"iss\":\"issuer\"}")});
  TOKENS.push_back({"ps256-token", ref_token(p.get("rsa_2048"), JWT_ALG_PS256, H("PS256"), "{\"iss\":\"issuer\"}")});
  TOKENS.push_back({"payload-empty-segment", b64u_enc(H("HS256")) + "..AAAA"});
  TOKENS.push_back({"header-empty-segment", ".e30.AAAA"});
  TOKENS.push_back({"only-dots", ".."});
  TOKENS.push_back({"header-len-1-mod-4", "eyJhb.e30.AAAA"});
}

// items the keyring flags with an error (their key material did not load): setkey takes them; every verification with one must fail WITH a message
static const jwk_item_t *flagged_item(int i) {
  static std::vector<LKey *> F;
  if (F.empty()) {
    JwkOpts o; o.priv = false; std::string ec = jwk_json(pool().get("ec_p256"), o), rsa = jwk_json(pool().get("rsa_2048"), o), okp = jwk_json(pool().get("ed25519"), o);
    auto brk = [](std::string d, const char *member) { size_t p = d.find(std::string("\"") + member + "\":\""); if (p != std::string::npos) d.insert(p + strlen(member) + 4, "!*"); return d; };
    F.push_back(new LKey(brk(ec, "y"))); F.push_back(new LKey(brk(rsa, "n"))); F.push_back(new LKey(brk(okp, "x")));
    o.alg = "ES256"; F.push_back(new LKey(brk(jwk_json(pool().get("ec_p256"), o), "x")));
  }
  return F[i % F.size()]->item;
}
struct CheckerCfg { int key; jwt_alg_t alg; int cb; bool iss; long exp_lee; };
static const CheckerCfg CCFG[] = {{-1, JWT_ALG_NONE, VCB_NONE, false, 0}, {1, JWT_ALG_NONE, VCB_NONE, false, 0}, {0, JWT_ALG_HS256, VCB_NONE, true, 0}, {4, JWT_ALG_NONE, VCB_NONE, false, -1}, {3, JWT_ALG_ES256, VCB_MUTATE, false, 0},
                                  {-1, JWT_ALG_NONE, VCB_FAIL, false, 0}, {-1, JWT_ALG_NONE, VCB_SELECT, false, 0}, {1, JWT_ALG_NONE, VCB_FAIL, true, 0}, {5, JWT_ALG_HS256, VCB_NONE, false, 0}, {6, JWT_ALG_NONE, VCB_NONE, false, 0}, {7, JWT_ALG_HS512, VCB_NONE, false, 5}, {2, JWT_ALG_HS256, VCB_NONE, false, 0},
                                  {-1, JWT_ALG_NONE, VCB_ALG_ONLY, false, 0}, {-1, JWT_ALG_NONE, VCB_MISMATCH, false, 0}, {-1, JWT_ALG_NONE, VCB_KEY_NOALG, false, 0}, {1, JWT_ALG_NONE, VCB_MISMATCH, true, 0}, {1, JWT_ALG_NONE, VCB_ALG_ONLY, false, -1}, {-1, JWT_ALG_NONE, VCB_KID, false, 0},
                                  {100, JWT_ALG_ES256, VCB_NONE, false, 0}, {101, JWT_ALG_RS256, VCB_NONE, false, 0}, {102, JWT_ALG_EDDSA, VCB_NONE, false, 0}, {103, JWT_ALG_NONE, VCB_NONE, true, 0}, {101, JWT_ALG_PS256, VCB_MUTATE, false, -1},   // keys >= 100: flagged items
                                  {-2, JWT_ALG_NONE, VCB_KEY_NOALG, false, 0}, {200, JWT_ALG_NONE, VCB_NONE, false, 0}, {200, JWT_ALG_RS256, VCB_NONE, true, 0}};   // -2: the callback hands out a key with an unknown alg attribute; 200: such a key by setkey
static const int NCCFG = 26;

static jwt_checker_t *mk_checker(const CheckerCfg &c, VCtx *cx) {
  jwt_checker_t *ch = jwt_checker_new();
  if (c.key >= 0 || c.alg != JWT_ALG_NONE) jwt_checker_setkey(ch, c.alg, c.key == 200 ? unknown_alg_key() : c.key >= 100 ? flagged_item(c.key - 100) : c.key >= 0 ? keytab()[c.key].lk->item : nullptr);
  jwt_checker_error_clear(ch);
  if (c.iss) jwt_checker_claim_set(ch, JWT_CLAIM_ISS, "issuer");
  jwt_checker_time_leeway(ch, JWT_CLAIM_EXP, c.exp_lee);
  cx->kind = c.cb; cx->other = c.key == -2; if (c.cb != VCB_NONE) jwt_checker_setcb(ch, checker_cb, cx);
  return ch;
}

// ---- Part A: enumerated checker causes on fresh and reused objects
static int ONLY_CELL[4] = {-1, -1, -1, -1};
static void part_checker(const Args &a) {
  Stats &st = stats(); int idx = 0;
  for (int prov = 0; prov < 2; prov++) for (int ci = 0; ci < NCCFG; ci++) for (size_t ti = 0; ti < TOKENS.size(); ti++) for (int reuse = 0; reuse < 3; reuse++) {
    if ((idx++ % a.nworkers) != a.worker) continue;
    if (ONLY_CELL[0] >= 0 && (prov != ONLY_CELL[0] || ci != ONLY_CELL[1] || (int)ti != ONLY_CELL[2] || reuse != ONLY_CELL[3])) continue;   // replay of one cell
    set_provider(prov); set_now(1700000000); VCtx cx{VCB_NONE};
    jwt_checker_t *ch = mk_checker(CCFG[ci], &cx);
    CASE = "{\"part\":\"checker\",\"prov\":" + std::to_string(prov) + ",\"cfg\":" + std::to_string(ci) + ",\"token_class\":" + jstr(TOKENS[ti].first) + ",\"ti\":" + std::to_string(ti) + ",\"reuse\":" + std::to_string(reuse) + "}";
    if (reuse == 1) jwt_checker_verify(ch, TOKENS[0].second.c_str());       // a valid HS256 token first (success or failure depending on config)
    if (reuse == 2) jwt_checker_verify(ch, "garbage");                       // a failure first, not cleared
    const char *tok = TOKENS[ti].first == "NULL" ? nullptr : TOKENS[ti].second.c_str();
    int ret = jwt_checker_verify(ch, tok);
    std::string msg = jwt_checker_error_msg(ch) ? jwt_checker_error_msg(ch) : "";
    std::string r = contract_checker(ret, ch);
    st.evaluations++; st.cls(ret ? "checker-failures" : "checker-successes");
    if (ret) { st.cls("cause:" + TOKENS[ti].first); st.nontrivial(mix(mix(prov, ci), mix(ti, reuse))); if (st.want_sample()) st.sample("{\"case\":" + CASE + ",\"message\":" + jstr(msg) + "}"); }
    if (!r.empty()) st.violation("C14:" + r + ":" + (ret ? TOKENS[ti].first : "success"), "checker error contract broken: ret=" + std::to_string(ret) + " flag=" + std::to_string(jwt_checker_error(ch)) + " msg='" + msg + "'", CASE);
    jwt_checker_free(ch);
  }
}

// ---- Part A2: the clock moves while a token is verified (one second per reading of time()): tokens that expire / become valid within the
// next seconds. Whatever verdict comes out, the contract between return value, flag and message holds.
static std::string run_ticking(int prov, int ci, int k, int what, long step) {
  const KeySpec &oct = pool().get("oct64"); const long T = 1700000000;
  std::string pay = what == 0 ? "{\"iss\":\"issuer\",\"exp\":" + std::to_string(T + k) + "}" : what == 1 ? "{\"iss\":\"issuer\",\"nbf\":" + std::to_string(T + k) + "}" : "{\"iss\":\"issuer\",\"nbf\":" + std::to_string(T + k) + ",\"exp\":" + std::to_string(T + k + 1) + "}";
  jwt_alg_t alg = CCFG[ci].alg == JWT_ALG_HS512 || CCFG[ci].key == 7 ? JWT_ALG_HS512 : JWT_ALG_HS256;
  std::string tok = ref_token(oct, alg, std::string("{\"alg\":\"") + jwt_alg_str(alg) + "\"}", pay);
  set_provider(prov); set_now(T); VCtx cx{VCB_NONE}; jwt_checker_t *ch = mk_checker(CCFG[ci], &cx);
  set_ticking(step); int ret = jwt_checker_verify(ch, tok.c_str()); set_ticking(0); set_now(T);
  std::string r = contract_checker(ret, ch); stats().cls(ret ? "moving-clock:rejected" : "moving-clock:accepted");
  if (!r.empty()) r += std::string(":moving-clock:ret=") + std::to_string(ret) + ",flag=" + std::to_string(jwt_checker_error(ch)) + ",msg='" + (jwt_checker_error_msg(ch) ? jwt_checker_error_msg(ch) : "") + "'";
  jwt_checker_free(ch); return r;
}
static void part_ticking(const Args &a) {
  Stats &st = stats(); int idx = 0; static const int CIS[] = {1, 2, 10, 6};   // configurations with an oct key (HS256 / HS512, with and without callback / iss / leeway)
  for (int prov = 0; prov < 2; prov++) for (int ci : CIS) for (int k = -7; k <= 8; k++) for (int what = 0; what < 3; what++) for (long step : {1L, 2L, 5L}) {
    if ((idx++ % a.nworkers) != a.worker) continue;
    CASE = "{\"part\":\"moving-clock\",\"prov\":" + std::to_string(prov) + ",\"cfg\":" + std::to_string(ci) + ",\"k\":" + std::to_string(k) + ",\"what\":" + std::to_string(what) + ",\"step\":" + std::to_string(step) + "}";
    std::string r = run_ticking(prov, ci, k, what, step);
    st.evaluations++; st.cls("moving-clock-cells"); st.nontrivial(mix(mix(fnv("tick"), prov * 16 + ci), mix(k + 100, what * 8 + step)));
    if (!r.empty()) st.violation("C14:" + r.substr(0, r.find(":moving-clock")) + ":moving-clock", "checker error contract broken while the clock moves: " + r, CASE);
  }
}

// ---- Part C: enumerated builder failure causes
struct BCase { const char *cause; jwt_alg_t alg; int key; int cb; bool expect_null; };
static void part_builder(const Args &a) {
  Stats &st = stats();
  static KeySpec &oct = *new KeySpec(pool().get("oct64"));
  static LKey unk(jwk_json(oct, [] { JwkOpts o; o.alg = "XX999"; return o; }()));
  static LKey rsa_as_hs(jwk_json(pool().get("rsa_2048"), [] { JwkOpts o; o.alg = "HS256"; return o; }()));
  const BCase BC[] = {{"ok-none", JWT_ALG_NONE, -1, CB_NONE, false}, {"ok-hs256", JWT_ALG_HS256, 0, CB_NONE, false}, {"ok-es256", JWT_ALG_NONE, 3, CB_NONE, false}, {"key-too-short", JWT_ALG_HS256, 5, CB_NONE, true},
                      {"public-key-via-callback", JWT_ALG_NONE, -1, CB_SELECT_PUB, true}, {"callback-fails", JWT_ALG_HS256, 0, CB_FAIL, true}, {"callback-selects-mismatching-key", JWT_ALG_NONE, 1, CB_SELECT_KEY, true},
                      {"family-mismatch-hs-with-ec-key", JWT_ALG_HS256, 2, CB_NONE, true}, {"family-mismatch-es-with-oct-key", JWT_ALG_ES256, 0, CB_NONE, true}, {"wrong-size-ec", JWT_ALG_ES384, 2, CB_NONE, true},
                      {"key-alg-unknown", JWT_ALG_NONE, -2, CB_NONE, true}, {"rsa-key-with-hs-alg-attr", JWT_ALG_NONE, -3, CB_NONE, true}, {"hs512-with-64-byte-key", JWT_ALG_NONE, 7, CB_NONE, false}};
  int idx = 0;
  for (int prov = 0; prov < 2; prov++) for (auto &bc : BC) for (int reuse = 0; reuse < 3; reuse++) {
    if ((idx++ % a.nworkers) != a.worker) continue;
    set_provider(prov); set_now(1700000000);
    BExec x; const jwk_item_t *item = bc.key >= 0 ? keytab()[bc.key].lk->item : bc.key == -2 ? unk.item : bc.key == -3 ? rsa_as_hs.item : nullptr;
    CASE = "{\"part\":\"builder\",\"prov\":" + std::to_string(prov) + ",\"cause\":" + jstr(bc.cause) + ",\"reuse\":" + std::to_string(reuse) + "}";
    if (reuse == 2) { jwt_builder_setkey(x.b, JWT_ALG_HS256, nullptr); }                                  // a failed configuration call first, not cleared
    jwt_builder_setkey(x.b, bc.alg, item);
    if (reuse != 2) jwt_builder_error_clear(x.b);
    x.cx.kind = bc.cb; if (bc.cb != CB_NONE) jwt_builder_setcb(x.b, builder_cb, &x.cx);
    if (reuse == 1) { char *t = jwt_builder_generate(x.b); free(t); }
    char *out = jwt_builder_generate(x.b);
    std::string msg = jwt_builder_error_msg(x.b) ? jwt_builder_error_msg(x.b) : "";
    std::string r = contract_builder(out, x.b);
    st.evaluations++; st.cls(out ? "builder-successes" : "builder-failures");
    if (!out) { st.cls(std::string("cause:builder-") + bc.cause); st.nontrivial(mix(mix(prov, fnv(bc.cause)), reuse + 100)); if (st.want_sample()) st.sample("{\"case\":" + CASE + ",\"message\":" + jstr(msg) + "}"); }
    if (!r.empty()) st.violation("C14:" + r + ":" + bc.cause, "builder error contract broken: out=" + std::string(out ? "token" : "NULL") + " flag=" + std::to_string(jwt_builder_error(x.b)) + " msg='" + msg + "'", CASE);
    free(out);
  }
}

// ---- Part D: keyring items: every single-member defect of every key type
static void part_keyring(const Args &a) {
  Stats &st = stats(); Pool &p = pool(); int idx = 0;
  const char *keys[] = {"rsa_2048", "ec_p256", "ec_p521", "ed25519", "ed448", "oct64"};
  const char *states[] = {"<absent>", "null", "5", "true", "[1]", "{\"a\":1}", "\"\"", "\"!!!\"", "\"AAAA\"", "\"A\""};
  for (const char *kn : keys) for (int priv = 0; priv < 2; priv++) {
    JwkOpts o; o.priv = priv; o.alg = ""; o.kid = "k"; std::string js = jwk_json(p.get(kn), o); J j = J::parse(js);
    std::vector<std::string> members; const char *k; json_t *v; json_object_foreach(j.p, k, v) members.push_back(k);
    members.push_back("alg"); members.push_back("use"); members.push_back("key_ops");
    for (auto &mname : members) for (const char *stt : states) {
      if ((idx++ % a.nworkers) != a.worker) continue;
      J d(json_deep_copy(j.p));
      if (!strcmp(stt, "<absent>")) json_object_del(d.p, mname.c_str()); else { J nv = J::parse(stt, JSON_DECODE_ANY); json_object_set(d.p, mname.c_str(), nv.p); }
      std::string doc = d.dump();
      CASE = "{\"part\":\"keyring\",\"doc\":" + jstr(doc) + "}";
      for (int wrap = 0; wrap < 2; wrap++) {
        std::string dd = wrap ? "{\"keys\":[" + doc + "," + doc + "]}" : doc;
        jwk_set_t *s = jwks_create(dd.c_str()); st.evaluations++;
        for (size_t i = 0; s && i < jwks_item_count(s); i++) { const jwk_item_t *it = jwks_item_get(s, i);
          if (jwks_item_error(it)) { st.cls("keyring-bad-items"); st.cls(std::string("cause:jwk-") + kn + (priv ? "-priv" : "-pub") + "-" + mname + "=" + stt); st.nontrivial(fnv(dd) + i);
            const char *m = jwks_item_error_msg(it); if (!m || !m[0]) st.violation(std::string("C14:keyring-item-error-without-message:") + mname, "item flagged bad but message empty", CASE); if (st.want_sample()) st.sample("{\"case\":" + CASE + ",\"message\":" + jstr(m ? m : "") + "}"); }
          else st.cls("keyring-good-items"); }
        if (s && jwks_error(s)) { const char *m = jwks_error_msg(s); if (!m || !m[0]) st.violation("C14:keyring-set-error-without-message", "set error without message", CASE); }
        jwks_free(s);
      }
    }
  }
  // set-level: not JSON
  if (a.worker == 0) for (const char *doc : {"", "{", "nope", "{\"keys\":[", "[1,"}) { jwk_set_t *s = jwks_create(doc); st.evaluations++; CASE = "{\"part\":\"keyring\",\"doc\":" + jstr(doc) + "}";
    if (!s || !jwks_error(s) || !jwks_error_msg(s)[0]) st.violation("C14:keyring-nonjson-not-flagged", "non-JSON document without set error/message", CASE); else { st.cls("cause:jwks-not-json"); st.nontrivial(fnv(doc)); } jwks_free(s); }
}

// ---- Part E: header/claim calls return the code they store, whatever the input (invalid UTF-8, NULL / empty names,
// NULL strings, malformed JSON, type mismatches), on builders and on the jwt_t of both kinds of callback
struct SGCtx { int *bad; std::string *what; };
static void sg_probe(std::function<int(jwt_value_t *)> setf, std::function<int(jwt_value_t *)> getf, const char *where, SGCtx &x) {
  Stats &st = stats();
  const char *names[] = {"a", "", nullptr, "caf\xe9", "\x80", "typ", "alg"};
  const char *strs[] = {"v", "", nullptr, "caf\xe9", "\xc3", "\xff\xfe", "ok\xe2\x82"};
  const char *jsons[] = {"{\"k\":1}", "[1]", "5", "{", nullptr, "", "{\"a\":\"\xff\"}", "{\"a\":1,\"a\":2}"};
  for (const char *n : names) for (int rep = 0; rep < 2; rep++) {
    for (const char *sv : strs) { jwt_value_t v = val_str(n, sv, rep); int r = setf(&v); st.evaluations++; st.cls("setget-probes"); st.nontrivial(mix(fnv(std::string(where) + (n ? n : "<null>")), mix(fnv(sv ? sv : "<null>"), rep)));
      if (r != (int)v.error) { (*x.bad)++; *x.what = std::string(where) + ": set STR name=" + (n ? jstr(n) : "NULL") + " value=" + (sv ? jstr(sv) : "NULL") + " returned " + std::to_string(r) + " but value.error=" + std::to_string((int)v.error); } }
    for (const char *jv : jsons) { jwt_value_t v = val_json(n, jv, rep); int r = setf(&v); st.evaluations++;
      if (r != (int)v.error) { (*x.bad)++; *x.what = std::string(where) + ": set JSON name=" + (n ? jstr(n) : "NULL") + " returned " + std::to_string(r) + " but value.error=" + std::to_string((int)v.error); } }
    { jwt_value_t v = val_int(n, 7, rep); int r = setf(&v); if (r != (int)v.error) { (*x.bad)++; *x.what = std::string(where) + ": set INT mismatch"; } v = val_bool(n, 1, rep); r = setf(&v); if (r != (int)v.error) { (*x.bad)++; *x.what = std::string(where) + ": set BOOL mismatch"; } }
    for (int t = JWT_VALUE_INT; t <= JWT_VALUE_JSON; t++) { jwt_value_t v = val_get((jwt_value_type_t)t, n); int r = getf(&v); st.evaluations++; if (t == JWT_VALUE_JSON && v.json_val) free(v.json_val);
      if (r != (int)v.error) { (*x.bad)++; *x.what = std::string(where) + ": get type " + std::to_string(t) + " name=" + (n ? jstr(n) : "NULL") + " returned " + std::to_string(r) + " but value.error=" + std::to_string((int)v.error); } }
  }
}
static int sg_cb(jwt_t *jwt, jwt_config_t *c) { SGCtx *x = (SGCtx *)c->ctx;
  sg_probe([&](jwt_value_t *v) { return (int)jwt_claim_set(jwt, v); }, [&](jwt_value_t *v) { return (int)jwt_claim_get(jwt, v); }, "callback-jwt-claims", *x);
  sg_probe([&](jwt_value_t *v) { return (int)jwt_header_set(jwt, v); }, [&](jwt_value_t *v) { return (int)jwt_header_get(jwt, v); }, "callback-jwt-headers", *x); return 0; }
static void part_setget(const Args &a) {
  if (a.worker != 1 % a.nworkers) return;
  Stats &st = stats(); int bad = 0; std::string what; SGCtx x{&bad, &what};
  CASE = "{\"part\":\"setget\"}";
  { jwt_builder_t *b = jwt_builder_new();
    sg_probe([&](jwt_value_t *v) { return (int)jwt_builder_claim_set(b, v); }, [&](jwt_value_t *v) { return (int)jwt_builder_claim_get(b, v); }, "builder-claims", x);
    sg_probe([&](jwt_value_t *v) { return (int)jwt_builder_header_set(b, v); }, [&](jwt_value_t *v) { return (int)jwt_builder_header_get(b, v); }, "builder-headers", x);
    jwt_builder_free(b); }
  { jwt_builder_t *b = jwt_builder_new(); jwt_builder_setcb(b, sg_cb, &x); char *t = jwt_builder_generate(b); free(t); jwt_builder_free(b); }
  { jwt_checker_t *c = jwt_checker_new(); jwt_checker_setcb(c, sg_cb, &x); jwt_checker_verify(c, TOKENS[14].second.c_str()); jwt_checker_free(c); }
  if (bad) st.violation("C14:setget-return-differs-from-value.error", what, CASE);
}

// ---- Part B: random histories (checker and builder alphabets of C13/C10)
static const std::vector<COp> *CURC = nullptr; static const std::vector<BOp> *CURB = nullptr;
static std::string run_checker_hist(int prov, const std::vector<COp> &ops) {
  TRACE.clear(); set_provider(prov); set_now(1700000000); CExec x;
  for (auto &o : ops) { bool isv = false; VRes r = capply(x, o, &isv); TRACE += cop_str(o) + "=" + std::to_string(r.ret) + "; ";
    if (isv) { stats().cls(r.ret ? "checker-failures" : "checker-successes"); std::string c = contract_checker(r.ret, x.c); if (!c.empty()) return c + ":" + (r.ret ? TOKENS[o.a % TOKENS.size()].first : "success"); } }
  return "";
}
static std::string run_builder_hist(int prov, const std::vector<BOp> &ops) {
  TRACE.clear(); set_provider(prov); set_now(1700000000); BExec x;
  for (auto &o : ops) { BResult r = apply(x, o); TRACE += bop_str(o) + (r.is_gen ? (r.null ? "=NULL; " : "=token; ") : "=" + std::to_string(r.code) + "; ");
    if (r.code == -99) return "setter-return-differs-from-value.error";
    if (r.is_gen) { stats().cls(r.null ? "builder-failures" : "builder-successes"); if (r.null && !r.err) return "generate-null-without-error-flag:history"; if (!r.null && r.err) return "generate-token-with-error-flag:history"; if (r.null && r.msg.empty()) return "generate-null-with-empty-message:history"; } }
  return "";
}
static std::string cops_json(const std::vector<COp> &ops) { std::string s = "["; for (size_t i = 0; i < ops.size(); i++) s += (i ? "," : "") + std::string("[") + std::to_string(ops[i].k) + "," + std::to_string(ops[i].a) + "," + std::to_string(ops[i].b) + "]"; return s + "]"; }

int main(int argc, char **argv) {
  Args a = parse_args(argc, argv); vo::allow_noctx() = true;
  init_keys(false); init_tokens(); more_tokens();
  cur_case() = [] { return CASE.empty() ? std::string("{}") : CASE; };
  Stats &st = stats();
  if (!a.replay.empty()) {
    J j = J::parse(read_file(a.replay)); if (!j) return 2;
    const char *part = json_string_value(json_object_get(j.p, "part")); std::string pt = part ? part : "";
    Args one = a; one.nworkers = 1; one.worker = 0;
    if (pt == "checker" && json_object_get(j.p, "token_class")) {   // one cell; the token is named by its class (positions shift when tokens are added)
      const char *tc = json_string_value(json_object_get(j.p, "token_class")); int ti = -1; for (size_t i = 0; i < TOKENS.size(); i++) if (TOKENS[i].first == tc) ti = (int)i;
      if (ti >= 0) { ONLY_CELL[0] = (int)json_integer_value(json_object_get(j.p, "prov")); ONLY_CELL[1] = (int)json_integer_value(json_object_get(j.p, "cfg")); ONLY_CELL[2] = ti; ONLY_CELL[3] = (int)json_integer_value(json_object_get(j.p, "reuse")); }
      part_checker(one); }
    else if (pt == "moving-clock") { auto gi = [&](const char *k) { return (int)json_integer_value(json_object_get(j.p, k)); }; std::string r = run_ticking(gi("prov"), gi("cfg"), gi("k"), gi("what"), gi("step")); if (!r.empty()) fprintf(stderr, "replay: %s\n", r.c_str()); return r.empty() ? 0 : 3; }
    else if (pt == "checker") part_checker(one); else if (pt == "builder") part_builder(one); else if (pt == "keyring") part_keyring(one); else if (pt == "setget") { one.worker = 1 % one.nworkers; part_setget(one); }
    else if (pt == "checker-history") { std::vector<COp> ops; size_t i; json_t *e; json_array_foreach(json_object_get(j.p, "ops"), i, e) ops.push_back({(int)json_integer_value(json_array_get(e, 0)), (int)json_integer_value(json_array_get(e, 1)), (int)json_integer_value(json_array_get(e, 2))}); return run_checker_hist((int)json_integer_value(json_object_get(j.p, "prov")), ops).empty() ? 0 : 3; }
    else if (pt == "builder-history") { std::vector<BOp> ops = bops_from_json(json_object_get(j.p, "ops")); return run_builder_hist((int)json_integer_value(json_object_get(j.p, "prov")), ops).empty() ? 0 : 3; }
    return st.violations.empty() ? 0 : 3;
  }
  part_checker(a); part_ticking(a); part_builder(a); part_keyring(a); part_setget(a);
  uint64_t n = a.thorough() ? 100000 : 1200;
  std::string params = "seed=" + std::to_string(a.seed * 1000 + a.worker) + " max_success=" + std::to_string(n) + " max_size=100";
  setenv("RC_PARAMS", params.c_str(), 1);
  std::string lastwhy, lastcase;
  auto genC = rc::gen::exec([]() { COp o; o.k = *rc::gen::weightedElement<int>({{3, C_SETKEY}, {2, C_CLAIM_SET}, {1, C_CLAIM_DEL}, {2, C_LEEWAY}, {2, C_SETCB}, {1, C_CLOCK}, {9, C_VERIFY}, {2, C_ERRCLR}}); o.a = *UNI(0, 1 << 12); o.b = *UNI(0, 1 << 12); return o; });
  auto genB = rc::gen::exec([]() { BOp o; o.k = *rc::gen::weightedElement<int>({{2, B_HSET}, {1, B_HDEL}, {3, B_CSET}, {1, B_CDEL}, {1, B_IAT}, {2, B_OFFSET}, {4, B_SETKEY}, {3, B_SETCB}, {1, B_CLOCK}, {8, B_GEN}, {2, B_ERRCLR}}); o.a = *UNI(0, 1 << 12); o.b = *UNI(0, 1 << 12); o.c = *UNI(0, 4); return o; });
  bool ok = rc::check("C14: failure is always flagged and explained", [&]() {
    if (v::shrink_exhausted()) return;
    int prov = *UNI(0, 2); int len = *UNI(1, 31); bool builder = *UNI(0, 2) == 1; std::string r; std::vector<BOp> bops; std::vector<COp> cops;
    if (builder) { bops = *rc::gen::container<std::vector<BOp>>(len, genB); r = run_builder_hist(prov, bops); CASE = "{\"part\":\"builder-history\",\"prov\":" + std::to_string(prov) + ",\"ops\":" + bops_json(bops) + ",\"readable\":" + bops_readable(bops) + "}"; }
    else { cops = *rc::gen::container<std::vector<COp>>(len, genC); r = run_checker_hist(prov, cops); CASE = "{\"part\":\"checker-history\",\"prov\":" + std::to_string(prov) + ",\"ops\":" + cops_json(cops) + ",\"trace\":" + jstr(TRACE) + "}"; }
    st.evaluations++; st.nontrivial(fnv(CASE));
    if (!r.empty()) { std::string sig = "C14:" + r; if (st.is_known(sig)) { st.known_hits[sig]++; return; } lastwhy = r; lastcase = CASE; v::fail_seen()++; RC_FAIL(r); }
  });
  if (!ok && !lastwhy.empty()) st.violation("C14:" + lastwhy, "error contract broken in a history: " + TRACE.substr(TRACE.size() > 500 ? TRACE.size() - 500 : 0), lastcase);
  return finish();
}
