// C02 / C03 - algorithm pinning and unsigned-token policy: exhaustive configuration matrix.
//   --prop C02 (default) | --prop C03
#include "vlib.h"
#include "vkeys.h"
using namespace v;

// ------------------------------------------------------------------ domain
struct HeaderVar { const char *label; const char *alg_json; jwt_alg_t base; };  // alg_json = raw JSON for the alg member (nullptr: missing)
static std::vector<HeaderVar> HV;
static void init_hv() {
  static std::string store[64]; int n = 0;
  for (auto &a : ALGS) { store[n] = std::string("\"") + a.name + "\""; HV.push_back({a.name, store[n].c_str(), a.alg}); n++; }
  HV.push_back({"none", "\"none\"", JWT_ALG_NONE});
  HV.push_back({"None", "\"None\"", JWT_ALG_NONE}); HV.push_back({"NONE", "\"NONE\"", JWT_ALG_NONE});
  HV.push_back({"hs256", "\"hs256\"", JWT_ALG_HS256}); HV.push_back({"Hs256", "\"Hs256\"", JWT_ALG_HS256});
  HV.push_back({"rs256", "\"rs256\"", JWT_ALG_RS256}); HV.push_back({"eddsa", "\"eddsa\"", JWT_ALG_EDDSA}); HV.push_back({"EDDSA", "\"EDDSA\"", JWT_ALG_EDDSA});
  HV.push_back({"HS256sp", "\"HS256 \"", JWT_ALG_HS256}); HV.push_back({"spES256", "\" ES256\"", JWT_ALG_ES256});
  HV.push_back({"XS256", "\"XS256\"", JWT_ALG_NONE}); HV.push_back({"empty", "\"\"", JWT_ALG_NONE});
  HV.push_back({"missing", nullptr, JWT_ALG_NONE});
  HV.push_back({"num", "1", JWT_ALG_NONE}); HV.push_back({"null", "null", JWT_ALG_NONE});
  HV.push_back({"array", "[\"HS256\"]", JWT_ALG_HS256}); HV.push_back({"object", "{\"a\":\"RS256\"}", JWT_ALG_RS256});
  // appended later (indices of the entries above are referenced by saved replay files: append only)
  HV.push_back({"none-nul-HS256", "\"none\\u0000HS256\"", JWT_ALG_NONE}); HV.push_back({"HS256-nul", "\"HS256\\u0000x\"", JWT_ALG_HS256}); HV.push_back({"ES256-nul", "\"ES256\\u0000\"", JWT_ALG_ES256});
  // a known name followed by exactly 256 / 512 / 65536 more characters (a name compared with a narrow length sees only the name)
  static std::string longs[8]; int m = 0;
  for (auto nm : {std::make_pair("HS256", JWT_ALG_HS256), std::make_pair("RS256", JWT_ALG_RS256), std::make_pair("none", JWT_ALG_NONE), std::make_pair("ES256", JWT_ALG_ES256)}) {
    longs[m] = std::string("\"") + nm.first + std::string(256, 'A') + "\""; static std::string labels[8]; labels[m] = std::string(nm.first) + "+256chars"; HV.push_back({labels[m].c_str(), longs[m].c_str(), nm.second}); m++; }
  longs[m] = "\"HS256" + std::string(512, 'A') + "\""; HV.push_back({"HS256+512chars", longs[m].c_str(), JWT_ALG_HS256}); m++;
  longs[m] = "\"none" + std::string(65536, 'A') + "\""; HV.push_back({"none+65536chars", longs[m].c_str(), JWT_ALG_NONE}); m++;
}
static bool hv_exact(const HeaderVar &h, jwt_alg_t a) {  // header names exactly algorithm a
  const char *n = jwt_alg_str(a); if (!n || !h.alg_json) return false; return std::string("\"") + n + "\"" == h.alg_json;
}

enum SigKind { S_ABSENT, S_GARBAGE, S_ATT_EMPTY, S_ATT_PEM, S_ATT_RAW, S_ATT_OWN, S_REALKEY, S_NATIVE, S_LEN256, S_LEN64K, S_NKINDS };
static const char *SK[] = {"absent", "garbage", "att-empty-hmac-key", "att-pubpem-hmac-key", "att-rawpub-hmac-key", "att-own-keypair", "real-key", "real-key-native-alg-under-other-header", "garbage-of-256-characters", "garbage-of-65536-characters"};

struct KeyCfg { const KeySpec *k; std::string attr; bool has_attr; jwt_alg_t attr_alg; LKey priv, pub; std::string label; };
static std::vector<std::unique_ptr<KeyCfg>> KC;
static Pool POOL;
static std::map<std::string, const KeySpec *> ATTACKER;  // own key pairs of the attacker, per family/curve

// ---- probe at the provider boundary ("an algorithm is never evaluated with a key of another family").
// struct jwk_item keeps HMAC key bytes and the provider's key object in ONE union: a provider's asymmetric operation that is
// entered with an oct key reads the secret bytes as a key object (and the HMAC operation entered with an asymmetric key reads a
// key object as bytes). The three signing/verifying entries of the active provider are wrapped to see with what they are entered.
extern "C" {
#include "jwt-private.h"
}
static struct jwt_crypto_ops WRAPPED; static struct jwt_crypto_ops *REAL_OPS = nullptr;
static long g_oct_in_pem_op = 0, g_asym_in_hmac_op = 0;
static int w_sign_hmac(jwt_t *jwt, char **out, unsigned int *len, const char *str, unsigned int sl) { if (jwt->key && jwt->key->kty != JWK_KEY_TYPE_OCT) g_asym_in_hmac_op++; return REAL_OPS->sign_sha_hmac(jwt, out, len, str, sl); }
static int w_sign_pem(jwt_t *jwt, char **out, unsigned int *len, const char *str, unsigned int sl) { if (jwt->key && jwt->key->kty == JWK_KEY_TYPE_OCT) { g_oct_in_pem_op++; return 1; } return REAL_OPS->sign_sha_pem(jwt, out, len, str, sl); }
static int w_verify_pem(jwt_t *jwt, const char *head, unsigned int hl, unsigned char *sig, int sl) { if (jwt->key && jwt->key->kty == JWK_KEY_TYPE_OCT) { g_oct_in_pem_op++; return 1; } return REAL_OPS->verify_sha_pem(jwt, head, hl, sig, sl); }
static void use_provider(int prov) {
  set_provider(prov);
  REAL_OPS = jwt_ops; WRAPPED = *jwt_ops; WRAPPED.sign_sha_hmac = w_sign_hmac; WRAPPED.sign_sha_pem = w_sign_pem; WRAPPED.verify_sha_pem = w_verify_pem; jwt_ops = &WRAPPED;
  g_oct_in_pem_op = g_asym_in_hmac_op = 0;
}
static std::string probe_verdict() { if (g_oct_in_pem_op) return "asymmetric-operation-entered-with-oct-key"; if (g_asym_in_hmac_op) return "hmac-operation-entered-with-asymmetric-key"; return ""; }

enum Route { R_SETKEY, R_CB_BOTH, R_CB_KEY, R_CB_ALG, R_SWAP_KEY, R_N };
static const char *RN[] = {"setkey", "cb-selects-key+alg", "cb-selects-key", "setkey(none,key)+cb-sets-alg", "setkey(none,sibling-key-with-alg-attr)+cb-swaps-key"};

// a configuration of the SAME key that carries an alg attribute of its family (the checker's default key before a callback swaps it)
static const KeyCfg *sibling_with_attr(const KeyCfg *kc) { for (auto &o : KC) if (o->k == kc->k && o.get() != kc && o->has_attr && o->attr_alg != JWT_ALG_NONE && o->attr_alg < JWT_ALG_INVAL && family_ok(*o->k, o->attr_alg)) return o.get(); return nullptr; }
static const char *alg_label(int a) { if (a == JWT_ALG_NONE) return "none"; if (a >= JWT_ALG_INVAL) return "INVAL"; return jwt_alg_str((jwt_alg_t)a); }

static std::string raw_pub(const KeySpec &k) {
  if (k.kind == K_RSA) return pkey_bn(k.pkey, OSSL_PKEY_PARAM_RSA_N);
  if (k.kind == K_EC) { int w = (k.bits + 7) / 8; return pkey_bn(k.pkey, OSSL_PKEY_PARAM_EC_PUB_X, w) + pkey_bn(k.pkey, OSSL_PKEY_PARAM_EC_PUB_Y, w); }
  if (k.kind == K_OKP) { unsigned char b[64]; size_t l = sizeof b; EVP_PKEY_get_raw_public_key(k.pkey, b, &l); return std::string((char *)b, l); }
  return "";
}

static void add_cfg(const KeySpec *k, const std::string &attr, bool has) {
  auto c = std::make_unique<KeyCfg>(); c->k = k; c->attr = attr; c->has_attr = has;
  c->attr_alg = has ? jwt_str_alg(attr.c_str()) : JWT_ALG_NONE;
  JwkOpts o; o.alg = has ? attr : ""; o.priv = true; c->priv = LKey(jwk_json(*k, o));
  o.priv = false; c->pub = LKey(jwk_json(*k, o));
  c->label = k->name + "/alg=" + (has ? attr : "<none>");
  if (!c->priv.ok() || !c->pub.ok()) { fprintf(stderr, "fixture import failed: %s: %s\n", c->label.c_str(), c->priv.item ? jwks_item_error_msg(c->priv.item) : "?"); exit(2); }
  KC.push_back(std::move(c));
}

static void init_keys(bool thorough) {
  POOL = standard_pool();
  std::vector<std::string> names = {"oct64", "rsa_2048", "ec_p256", "ec_p384", "ec_p521", "ec_k256", "ed25519", "ed448", "oct32"};
  if (thorough) { names.push_back("rsa_4096"); names.push_back("oct48"); names.push_back("rsa_3072"); }
  for (auto &n : names) {
    const KeySpec *k = &POOL.get(n);
    add_cfg(k, "", false);
    for (auto &a : ALGS) if (a.kind == k->kind && (k->kind != K_EC || a.ecbits == k->bits)) add_cfg(k, a.name, true);  // every alg of its family
    // one alg of another family, and an unknown string
    add_cfg(k, k->kind == K_OCT ? "RS256" : "HS256", true);
    if (k->kind == K_EC) add_cfg(k, k->bits == 256 ? "ES384" : "ES256", true);  // wrong-size EC alg
    add_cfg(k, "XX999", true);
  }
  // crafted oct keys whose first bytes look like an EVP_PKEY type id (type confusion probes)
  static std::vector<KeySpec> crafted;
  crafted.reserve(8);
  for (int id : {6, 408, 912, 1087, 1088}) {
    KeySpec s = oct_key("oct64-evp" + std::to_string(id), 64);
    s.oct[0] = (char)(id & 0xff); s.oct[1] = (char)((id >> 8) & 0xff); s.oct[2] = 0; s.oct[3] = 0;
    crafted.push_back(s);
  }
  for (auto &s : crafted) { add_cfg(&s, "", false); add_cfg(&s, s.name.find("evp6") != std::string::npos ? "RS256" : s.name.find("408") != std::string::npos ? "ES256" : s.name.find("912") != std::string::npos ? "PS256" : "EdDSA", true); }
  // the same probes with exactly the size the asymmetric algorithm's own size test looks for (appended: earlier indices keep their meaning)
  static std::vector<KeySpec> crafted2; crafted2.reserve(8);
  struct CS { int id; int len; const char *alg; }; static const CS css[] = {{408, 32, "ES256"}, {408, 32, "ES256K"}, {1087, 32, "EdDSA"}, {1088, 57, "EdDSA"}, {408, 48, "ES384"}, {6, 256, "RS256"}, {912, 256, "PS512"}, {6, 512, "RS384"}};
  for (auto &c : css) { KeySpec s = oct_key("oct" + std::to_string(c.len) + "-evp" + std::to_string(c.id) + "-" + c.alg, c.len); s.oct[0] = (char)(c.id & 0xff); s.oct[1] = (char)((c.id >> 8) & 0xff); s.oct[2] = 0; s.oct[3] = 0; crafted2.push_back(s); }
  for (size_t i = 0; i < crafted2.size(); i++) { add_cfg(&crafted2[i], "", false); add_cfg(&crafted2[i], css[i].alg, true); }
  ATTACKER["RSA"] = &POOL.get("rsa_2048b"); ATTACKER["P-256"] = &POOL.get("ec_p256b"); ATTACKER["P-384"] = &POOL.get("ec_p384b");
  ATTACKER["P-521"] = &POOL.get("ec_p521b"); ATTACKER["secp256k1"] = &POOL.get("ec_k256b"); ATTACKER["OKP"] = &POOL.get("ed25519b"); ATTACKER["OCT"] = &POOL.get("oct64b");
}

static const KeySpec *attacker_for(jwt_alg_t a) {
  const AlgInfo *ai = alg_info(a); if (!ai) return nullptr;
  if (ai->kind == K_OCT) return ATTACKER["OCT"]; if (ai->kind == K_RSA) return ATTACKER["RSA"]; if (ai->kind == K_OKP) return ATTACKER["OKP"];
  if (a == JWT_ALG_ES256) return ATTACKER["P-256"]; if (a == JWT_ALG_ES256K) return ATTACKER["secp256k1"]; if (a == JWT_ALG_ES384) return ATTACKER["P-384"]; return ATTACKER["P-521"];
}

static const std::string PAYLOAD = "{\"sub\":\"matrix\",\"n\":7}";
static std::string header_json(const HeaderVar &h) { return h.alg_json ? std::string("{\"alg\":") + h.alg_json + ",\"typ\":\"JWT\"}" : std::string("{\"typ\":\"JWT\"}"); }

// token for (key, header variant, signature kind); "" if the kind does not apply
static std::string make_token(const KeySpec &k, const HeaderVar &h, int sk) {
  std::string in = b64u_enc(header_json(h)) + "." + b64u_enc(PAYLOAD);
  jwt_alg_t b = h.base; const AlgInfo *bi = alg_info(b);
  switch (sk) {
  case S_ABSENT: return in + ".";
  case S_GARBAGE: { Rng r(fnv(in)); size_t n = bi && bi->kind == K_EC ? 2 * ((bi->ecbits + 7) / 8) : bi && bi->kind == K_RSA ? 256 : bi && bi->kind == K_OKP ? 64 : 32; return in + "." + b64u_enc(r.bytes(n)); }
  // third segments whose LENGTH is a multiple of 2^8 / 2^16 characters (a length kept in a narrow integer reads as "empty")
  case S_LEN256: { Rng r(fnv(in) + 1); return in + "." + b64u_enc(r.bytes(192)); }
  case S_LEN64K: { Rng r(fnv(in) + 2); return in + "." + b64u_enc(r.bytes(49152)); }
  case S_ATT_EMPTY: if (!bi || bi->kind != K_OCT) return ""; return in + "." + b64u_enc(ref_hmac("", bi->md, in));
  case S_ATT_PEM: if (!bi || bi->kind != K_OCT || k.kind == K_OCT) return ""; return in + "." + b64u_enc(ref_hmac(pkey_to_pem(k.pkey, false), bi->md, in));
  case S_ATT_RAW: if (!bi || bi->kind != K_OCT || k.kind == K_OCT) return ""; return in + "." + b64u_enc(ref_hmac(raw_pub(k), bi->md, in));
  case S_ATT_OWN: { if (!bi || bi->kind == K_OCT) return ""; const KeySpec *ak = attacker_for(b); std::string s = ref_sign(*ak, b, in); return s.empty() ? "" : in + "." + b64u_enc(s); }
  case S_REALKEY: { if (!bi) return ""; if (bi->kind != k.kind) return ""; std::string s = ref_sign(k, b, in); return s.empty() ? "" : in + "." + b64u_enc(s); }
  case S_NATIVE: {   // signed by the real key with an algorithm of ITS family although the header names an algorithm of another family
      if (!bi || bi->kind == k.kind) return "";
      jwt_alg_t na = k.kind == K_OCT ? JWT_ALG_HS256 : k.kind == K_RSA ? JWT_ALG_RS256 : k.kind == K_OKP ? JWT_ALG_EDDSA : k.bits == 384 ? JWT_ALG_ES384 : k.bits == 521 ? JWT_ALG_ES512 : JWT_ALG_ES256;
      std::string s = ref_sign(k, na, in); return s.empty() ? "" : in + "." + b64u_enc(s); }
  }
  return "";
}

// ------------------------------------------------------------------ one verify cell
struct CbCtx { const jwk_item_t *key; jwt_alg_t alg; int mode; };
static int cb_fn(jwt_t *, jwt_config_t *c) {
  CbCtx *x = (CbCtx *)c->ctx;
  if (x->mode == R_CB_BOTH) { c->key = x->key; c->alg = x->alg; }
  else if (x->mode == R_CB_KEY || x->mode == R_SWAP_KEY) { c->key = x->key; }
  else if (x->mode == R_CB_ALG) { c->alg = x->alg; }
  return 0;
}

// the callback is installed either in one call or - every second cell - in two: first with a context that makes it do nothing, then the
// context alone is replaced ("calling this with a NULL cb param and a new ctx param ... will allow updating the ctx", jwt.h)
static CbCtx IDLE_CTX{nullptr, JWT_ALG_NONE, -1};
static bool g_two_step = false;
static int install_cb(jwt_checker_t *ch, CbCtx *cx) { if (!g_two_step) return jwt_checker_setcb(ch, cb_fn, cx); int r = jwt_checker_setcb(ch, cb_fn, &IDLE_CTX); return r ? r : jwt_checker_setcb(ch, NULL, cx); }
static int install_cb(jwt_builder_t *b, CbCtx *cx) { if (!g_two_step) return jwt_builder_setcb(b, cb_fn, cx); int r = jwt_builder_setcb(b, cb_fn, &IDLE_CTX); return r ? r : jwt_builder_setcb(b, NULL, cx); }
static bool supported(int prov, const KeySpec &k, jwt_alg_t a) { if (prov == 0) return true; return !(a == JWT_ALG_ES256K || k.crv == "secp256k1"); }

struct Cell { int prov, route, E, kc, hv, sk; bool builder; bool pubkey; std::string token; };
static Cell CUR;
static std::string cell_json(const Cell &c) {
  std::string s = "{\"kind\":\"" + std::string(c.builder ? "builder" : "verify") + "\",\"provider\":\"" + prov_name(c.prov) + "\",\"prov\":" + std::to_string(c.prov) +
    ",\"route\":" + std::to_string(c.route) + ",\"route_name\":\"" + RN[c.route] + "\",\"E\":" + std::to_string(c.E) + ",\"explicit_alg\":\"" + alg_label(c.E) + "\",\"kc\":" + std::to_string(c.kc) +
    ",\"key\":" + (c.kc < 0 ? std::string("null") : jstr(KC[c.kc]->label)) + ",\"pubkey\":" + (c.pubkey ? "true" : "false");
  if (!c.builder) s += ",\"hv\":" + std::to_string(c.hv) + ",\"header_alg\":" + jstr(HV[c.hv].label) + ",\"sk\":" + std::to_string(c.sk) + ",\"sig\":\"" + SK[c.sk] + "\",\"token\":" + jstr(c.token);
  if (c.kc >= 0) s += ",\"jwk\":" + jstr(c.pubkey ? KC[c.kc]->pub.json : KC[c.kc]->priv.json);
  return s + "}";
}

// model of the statement: final (alg,key) after the route; returns reason ("" = acceptable)
static std::string model_reject_reason(int E, const KeyCfg *kc, bool table_admits) {
  if (!table_admits) return "outside-setkey-table";
  if (!kc) return "no-key";
  jwt_alg_t pinned = (E != JWT_ALG_NONE) ? (jwt_alg_t)E : kc->attr_alg;
  if (pinned == JWT_ALG_NONE || pinned >= JWT_ALG_INVAL) return "no-pinned-alg";
  if (!family_ok(*kc->k, pinned)) return "family-mismatch";
  if (!strength_ok(*kc->k, pinned)) return "weak-key";
  return "";
}
// documented setkey table; -1 = cell not covered by the table (E or key alg not a valid algorithm)
static int table(int E, const KeyCfg *kc) {
  if (E >= JWT_ALG_INVAL) return -1;
  if (!kc) return E == JWT_ALG_NONE ? 1 : 0;
  if (kc->has_attr && kc->attr_alg >= JWT_ALG_INVAL) return E == JWT_ALG_NONE ? -1 : 0;  // unknown alg attribute: any explicit alg is 'another' alg
  jwt_alg_t A = kc->attr_alg;
  if (A == JWT_ALG_NONE) return E == JWT_ALG_NONE ? -1 : 1;  // none/none with a key is not in the table (C02: never used -> checked on verify)
  if (E == JWT_ALG_NONE) return 1;
  return E == A ? 1 : 0;
}

static std::map<std::string, std::string> TOKCACHE;
static const std::string &token_for(int kci, const KeySpec &k, int hv, int sk) {
  std::string key = k.name + "/" + std::to_string(hv) + "/" + std::to_string(sk);
  auto it = TOKCACHE.find(key); if (it != TOKCACHE.end()) return it->second;
  (void)kci; return TOKCACHE[key] = make_token(k, HV[hv], sk);
}

static bool PROP_C03 = false;
static const char *PID() { return PROP_C03 ? "C03" : "C02"; }

// run one verify cell; returns false on violation
static bool verify_cell(Cell c, bool count = true) {
  Stats &st = stats();
  const KeyCfg *kc = c.kc >= 0 ? KC[c.kc].get() : nullptr;
  const jwk_item_t *item = kc ? kc->pub.item : nullptr;
  if (kc && kc->k->kind == K_OCT) item = kc->priv.item;
  CUR = c;
  use_provider(c.prov); g_two_step = ((c.hv + c.sk + c.kc + c.E) & 1) != 0;
  jwt_checker_t *ch = jwt_checker_new();
  jwt_checker_time_leeway(ch, JWT_CLAIM_EXP, 0);
  CbCtx cx{item, (jwt_alg_t)c.E, c.route};
  int admitted = 1; bool skip = false;
  int E_final = c.E; const KeyCfg *kc_final = kc;
  switch (c.route) {
  case R_SETKEY: admitted = jwt_checker_setkey(ch, (jwt_alg_t)c.E, item) == 0; break;
  case R_CB_BOTH: install_cb(ch, &cx); break;
  case R_CB_KEY: if (c.E != JWT_ALG_NONE) skip = true; install_cb(ch, &cx); break;
  case R_CB_ALG: if (!item || jwt_checker_setkey(ch, JWT_ALG_NONE, item)) skip = true; install_cb(ch, &cx); break;
  case R_SWAP_KEY: { const KeyCfg *sib = kc ? sibling_with_attr(kc) : nullptr; if (!sib || c.E != JWT_ALG_NONE) { skip = true; break; }
      const jwk_item_t *si = sib->k->kind == K_OCT ? sib->priv.item : sib->pub.item; if (jwt_checker_setkey(ch, JWT_ALG_NONE, si)) skip = true; install_cb(ch, &cx); break; }
  }
  bool ok = true;
  if (skip) { jwt_checker_free(ch); return true; }
  int tb = table(E_final, kc_final);
  if (c.route == R_SETKEY) {
    if (!PROP_C03 && tb >= 0 && admitted != tb) {
      ok = !st.violation(std::string("C02:setkey-table:") + (tb ? "refused-documented-pair" : "accepted-undocumented-pair"), std::string("jwt_checker_setkey(") + alg_label(c.E) + ", " + (kc ? kc->label : "NULL") + ") returned " + (admitted ? "0" : "non-zero"), cell_json(c));
    }
    if (!admitted) { jwt_checker_free(ch); if (count) { st.evaluations++; st.cls("setkey-refused"); } return ok; }
  }
  int ret = jwt_checker_verify(ch, c.token.c_str());
  const char *msg = jwt_checker_error_msg(ch);
  if (!PROP_C03) { std::string pv = probe_verdict(); if (!pv.empty()) ok = !st.violation("C02:verify:" + pv, "during jwt_checker_verify the provider's " + pv, cell_json(c)) && ok; }
  if (count) { st.evaluations++; st.cls(ret == 0 ? "verify-accept" : "verify-reject"); }
  // ---- model
  std::string reason;
  const HeaderVar &h = HV[c.hv];
  bool table_admits = tb != 0;  // -1 (uncovered) cells are judged by the remaining clauses
  if (kc_final) {
    reason = model_reject_reason(E_final, kc_final, table_admits);
    if (reason.empty()) {
      jwt_alg_t pinned = (E_final != JWT_ALG_NONE) ? (jwt_alg_t)E_final : kc_final->attr_alg;
      if (!hv_exact(h, pinned)) reason = "header!=pinned";
      else if (c.sk == S_ABSENT) reason = "unsigned-with-key";
      else if (!ref_valid(*kc_final->k, c.token)) reason = "sig-invalid";
    }
  } else {
    // no key: only alg none + explicit none + empty signature may pass
    if (E_final != JWT_ALG_NONE) reason = "alg-without-key";
    else if (!(h.alg_json && !strcmp(h.alg_json, "\"none\""))) reason = "nokey-header-not-none";
    else if (c.sk != S_ABSENT) reason = "nokey-signature-present";
  }
  if (ret == 0 && !reason.empty()) {
    ok = !st.violation(std::string(PID()) + ":verify-accepts:" + reason + ":" + SK[c.sk], "jwt_checker_verify returned 0 for a cell the statement forbids (" + reason + ")", cell_json(c));
  }
  // positive control / two-sided no-key rule
  if (ret != 0 && reason.empty()) {
    bool must = !kc_final || supported(c.prov, *kc_final->k, (E_final != JWT_ALG_NONE) ? (jwt_alg_t)E_final : kc_final->attr_alg);
    if (must) ok = !st.violation(std::string(PID()) + ":verify-rejects-valid:" + (kc_final ? "pinned-alg-valid-signature" : "nokey-unsigned"), std::string("positive control rejected: ") + (msg ? msg : ""), cell_json(c)) && ok;
  }
  if (count) {
    bool nt = false;
    if (PROP_C03) nt = kc_final != nullptr || c.sk == S_ABSENT || h.base == JWT_ALG_NONE;
    else { int nn = (c.E != JWT_ALG_NONE) + (kc && kc->has_attr) + (h.alg_json && strcmp(h.alg_json, "\"none\"") != 0); nt = nn >= 2 && c.sk >= S_ATT_EMPTY; }
    if (nt) st.nontrivial_distinct();
    if (ret == 0) st.cls("accepted-positive-controls");
    if (st.want_sample()) st.sample(cell_json(c));
  }
  jwt_checker_free(ch);
  return ok;
}

// ------------------------------------------------------------------ builder cell
static bool builder_cell(Cell c, bool count = true) {
  Stats &st = stats();
  const KeyCfg *kc = c.kc >= 0 ? KC[c.kc].get() : nullptr;
  const jwk_item_t *item = kc ? (c.pubkey ? kc->pub.item : kc->priv.item) : nullptr;
  c.builder = true; CUR = c;
  use_provider(c.prov); g_two_step = ((c.hv + c.sk + c.kc + c.E) & 1) != 0;
  jwt_builder_t *b = jwt_builder_new();
  CbCtx cx{item, (jwt_alg_t)c.E, c.route};
  int admitted = 1; bool skip = false;
  switch (c.route) {
  case R_SETKEY: admitted = jwt_builder_setkey(b, (jwt_alg_t)c.E, item) == 0; break;
  case R_CB_BOTH: install_cb(b, &cx); break;
  case R_CB_KEY: if (c.E != JWT_ALG_NONE) skip = true; install_cb(b, &cx); break;
  case R_CB_ALG: if (!item || jwt_builder_setkey(b, JWT_ALG_NONE, item)) skip = true; install_cb(b, &cx); break;
  case R_SWAP_KEY: { const KeyCfg *sib = kc ? sibling_with_attr(kc) : nullptr; if (!sib || c.E != JWT_ALG_NONE) { skip = true; break; }
      if (jwt_builder_setkey(b, JWT_ALG_NONE, sib->priv.item)) skip = true; install_cb(b, &cx); break; }
  }
  if (skip) { jwt_builder_free(b); return true; }
  bool ok = true;
  int tb = table(c.E, kc);
  bool pub_asym = kc && c.pubkey && kc->k->kind != K_OCT;
  if (c.route == R_SETKEY) {
    int want = pub_asym ? 0 : tb;
    if (!PROP_C03 && want >= 0 && admitted != want)
      ok = !st.violation(std::string("C02:builder-setkey-table:") + (want ? "refused-documented-pair" : "accepted-undocumented-pair"), std::string("jwt_builder_setkey(") + alg_label(c.E) + ", " + (kc ? kc->label : "NULL") + (c.pubkey ? " [public]" : "") + ") returned " + (admitted ? "0" : "non-zero"), cell_json(c));
    if (!admitted) { jwt_builder_free(b); if (count) { st.evaluations++; st.cls("builder-setkey-refused"); } return ok; }
  }
  // every second cell: the application has put an "alg" member of its own into the header (by header_set, or from the callback would be the
  // same object): the token's alg is still the one resolved from key and explicit algorithm
  if (((c.kc + c.E + c.route) & 1) == 0) { jwt_value_t pv = val_str("alg", (c.E & 2) ? "HS256" : "ES512", 1); jwt_builder_header_set(b, &pv); if (count) st.cls("builder-cells-with-a-preset-alg-header"); }
  char *out = jwt_builder_generate(b);
  if (count) { st.evaluations++; st.cls(out ? "generate-token" : "generate-null"); }
  if (!PROP_C03) { std::string pv = probe_verdict(); if (!pv.empty()) ok = !st.violation("C02:generate:" + pv, "during jwt_builder_generate the provider's " + pv, cell_json(c)) && ok; }
  std::string reason;
  if (kc) { reason = model_reject_reason(c.E, kc, tb != 0); if (reason.empty() && pub_asym) reason = "public-key"; }
  else if (c.E != JWT_ALG_NONE) reason = "alg-without-key";
  if (out) {
    std::string tok(out); c.token = tok; CUR = c;
    TokParts tp = split_token(tok); std::string an; bool ha = header_alg(tp, an);
    if (!reason.empty()) {
      std::string detail = ha ? an : "?";
      ok = !st.violation(std::string(PID()) + ":builder-emits:" + reason + ":header-alg=" + (ha && alg_by_name(an) ? alg_info(alg_by_name(an)->alg)->kind == K_OCT ? "HS*" : "asym" : detail), "jwt_builder_generate produced a token for a cell the statement forbids (" + reason + "), header alg " + detail, cell_json(c)) && ok;
    } else if (kc) {
      jwt_alg_t pinned = (c.E != JWT_ALG_NONE) ? (jwt_alg_t)c.E : kc->attr_alg;
      if (!ha || an != jwt_alg_str(pinned)) ok = !st.violation(std::string(PID()) + ":builder-header-alg!=pinned", "header alg '" + an + "' differs from pinned " + jwt_alg_str(pinned), cell_json(c)) && ok;
      else if (tp.s.empty()) ok = !st.violation(std::string(PID()) + ":builder-unsigned-with-key", "token with key has empty signature", cell_json(c)) && ok;
      else if (!ref_valid(*kc->k, tok)) ok = !st.violation(std::string(PID()) + ":builder-signature-invalid-under-real-key", "signature of generated token does not verify under the configured key", cell_json(c)) && ok;
    } else {
      if (!ha || an != "none" || !tp.ok || !tp.s.empty()) ok = !st.violation(std::string(PID()) + ":builder-nokey-not-none", "builder without key produced something else than an alg-none token ending in '.'", cell_json(c)) && ok;
    }
    free(out);
  } else if (reason.empty()) {
    bool must = !kc || supported(c.prov, *kc->k, (c.E != JWT_ALG_NONE) ? (jwt_alg_t)c.E : kc->attr_alg);
    if (must) ok = !st.violation(std::string(PID()) + ":builder-refuses-valid", std::string("generate returned NULL for an admissible pair: ") + jwt_builder_error_msg(b), cell_json(c)) && ok;
  }
  if (count) { if (kc) st.nontrivial_distinct(); if (st.want_sample()) st.sample(cell_json(c)); }
  jwt_builder_free(b);
  return ok;
}

// ------------------------------------------------------------------ a REFUSED setkey leaves the pinned pair in force (both properties)
// setkey(ok pair) ; setkey(refused pair) -> non-zero ; then the object behaves as configured by the first call: the checker rejects the
// alg-none token and tokens of other algorithms and accepts the pinned algorithm's token; the builder emits a token signed under the first pair
static std::string refused_history_case(int prov, int first, int second, int side, std::string *desc) {
  struct First { const char *key; const char *attr; jwt_alg_t e; jwt_alg_t resolved; };
  static const First FIRSTS[] = {{"oct64", "HS256", JWT_ALG_NONE, JWT_ALG_HS256}, {"oct64", "", JWT_ALG_HS256, JWT_ALG_HS256}, {"ec_p256", "ES256", JWT_ALG_NONE, JWT_ALG_ES256}, {"ec_p256", "", JWT_ALG_ES256, JWT_ALG_ES256},
                                 {"rsa_2048", "", JWT_ALG_RS256, JWT_ALG_RS256}, {"rsa_2048", "PS256", JWT_ALG_PS256, JWT_ALG_PS256}, {"ed25519", "", JWT_ALG_EDDSA, JWT_ALG_EDDSA}};
  const First &f = FIRSTS[first % 7]; const KeySpec &k = POOL.get(f.key);
  *desc = "{\"kind\":\"refused-setkey\",\"prov\":" + std::to_string(prov) + ",\"first\":" + std::to_string(first) + ",\"second\":" + std::to_string(second) + ",\"side\":" + std::to_string(side) + ",\"key\":\"" + f.key + "\",\"pinned\":\"" + jwt_alg_str(f.resolved) + "\"}";
  use_provider(prov);
  JwkOpts o; o.alg = f.attr; o.priv = true; LKey key(jwk_json(k, o)); JwkOpts o2; o2.priv = true; LKey noattr(jwk_json(k, o2)); JwkOpts o3; o3.alg = "HS384"; o3.priv = true; LKey hs384(jwk_json(POOL.get("oct64"), o3));
  if (!key.ok()) return "";
  // the refused second call
  auto second_call = [&](auto setkey) -> int {
    switch (second % 6) {
    case 0: return setkey(JWT_ALG_HS256, (const jwk_item_t *)nullptr);          // algorithm without key
    case 1: return setkey(JWT_ALG_ES384, (const jwk_item_t *)nullptr);
    case 2: return setkey(JWT_ALG_HS512, (const jwk_item_t *)hs384.item);       // key says HS384, caller says HS512
    case 3: return setkey(JWT_ALG_NONE, (const jwk_item_t *)noattr.item);       // key without alg attribute and no algorithm
    case 4: return setkey(f.resolved == JWT_ALG_HS256 ? JWT_ALG_ES256 : JWT_ALG_HS256, (const jwk_item_t *)key.item);   // the same key with an algorithm of another family / other than its attribute
    default: return setkey(JWT_ALG_INVAL, (const jwk_item_t *)key.item);
    } };
  std::string hdr = std::string("{\"alg\":\"") + jwt_alg_str(f.resolved) + "\"}", good = ref_token(k, f.resolved, hdr, PAYLOAD), none = b64u_enc("{\"alg\":\"none\"}") + "." + b64u_enc(PAYLOAD) + ".";
  std::string other = ref_token(POOL.get("oct64"), JWT_ALG_HS384, "{\"alg\":\"HS384\"}", PAYLOAD);
  std::string bad;
  if (side == 0) {
    jwt_checker_t *ch = jwt_checker_new();
    if (!jwt_checker_setkey(ch, f.e, key.item)) {
      int r2 = second_call([&](jwt_alg_t a, const jwk_item_t *it) { return jwt_checker_setkey(ch, a, it); });
      if (r2 != 0) { stats().cls("refused-setkey-after-an-accepted-one");
        if (jwt_checker_verify(ch, none.c_str()) == 0) bad = "checker-accepts-alg-none-token-after-a-refused-setkey";
        else if (jwt_checker_verify(ch, other.c_str()) == 0) bad = "checker-accepts-other-algorithm-after-a-refused-setkey";
        else if (!(prov == 1 && f.resolved == JWT_ALG_ES256K) && jwt_checker_verify(ch, good.c_str()) != 0) bad = "checker-rejects-the-pinned-algorithm's-token-after-a-refused-setkey"; }
    }
    jwt_checker_free(ch);
  } else {
    jwt_builder_t *b = jwt_builder_new();
    if (!jwt_builder_setkey(b, f.e, key.item)) {
      int r2 = second_call([&](jwt_alg_t a, const jwk_item_t *it) { return jwt_builder_setkey(b, a, it); });
      if (r2 != 0) { stats().cls("refused-setkey-after-an-accepted-one"); jwt_builder_error_clear(b);
        char *t = jwt_builder_generate(b);
        if (!t) bad = "builder-emits-nothing-after-a-refused-setkey";
        else { TokParts tp = split_token(t); std::string an; header_alg(tp, an);
          if (tp.s.empty() || an == "none") bad = "builder-emits-unsigned-token-after-a-refused-setkey";
          else if (an != jwt_alg_str(f.resolved) || !ref_valid(k, t)) bad = "builder-emits-token-of-another-pair-after-a-refused-setkey"; }
        free(t); }
    }
    jwt_builder_free(b);
  }
  return bad;
}
static bool refused_history(int prov, int w, int W) {
  Stats &st = stats(); int idx = 0;
  for (int first = 0; first < 7; first++) for (int second = 0; second < 6; second++) for (int side = 0; side < 2; side++) {
    if ((idx++ % W) != w) continue;
    std::string d, r = refused_history_case(prov, first, second, side, &d); st.evaluations++; st.cls("setkey-history-cells"); st.nontrivial(mix(fnv("refused"), mix(prov * 2 + side, first * 8 + second)));
    if (!r.empty()) { st.violation(std::string(PID()) + ":" + r, "a refused setkey call changed the configuration: " + d, d); return false; }
  }
  return true;
}

// ------------------------------------------------------------------ C03 extras: token shapes
static bool c03_shapes(int prov, int w, int W) {
  Stats &st = stats(); bool ok = true;
  // configurations: no key; key with attr; key without attr + explicit alg; callback variants handled by routes in the matrix
  std::vector<std::string> shapes;
  const KeySpec &ok64 = POOL.get("oct64"); const KeySpec &ec = POOL.get("ec_p256");
  for (const char *alg : std::vector<const char *>{"\"none\"", "\"None\"", "\"NONE\"", "\"HS256\"", "\"ES256\"", "\"XS256\"", nullptr}) {
    std::string hj = alg ? std::string("{\"alg\":") + alg + "}" : "{\"typ\":\"JWT\"}";
    std::string in = b64u_enc(hj) + "." + b64u_enc(PAYLOAD);
    std::string vs_hs = b64u_enc(ref_sign(ok64, JWT_ALG_HS256, in)), vs_ec = b64u_enc(ref_sign(ec, JWT_ALG_ES256, in));
    for (const std::string &third : {std::string(""), std::string("A"), std::string("AA"), vs_hs, vs_ec, std::string("!!"), std::string("=")}) {
      shapes.push_back(b64u_enc(hj) + "." + b64u_enc(PAYLOAD));              // 2 segments (one dot)
      shapes.push_back(in + "." + third);                                     // 3 segments
      shapes.push_back(in + "." + third + ".");                               // 4 segments
      shapes.push_back(in + "." + third + "." + third);                       // 4 segments
      shapes.push_back(in + ".." + third);                                    // empty third, then more
      shapes.push_back(in + "." + third + ".x.y");                            // 5+
    }
  }
  // more than three segments with the signature computed over everything before the LAST dot (a parser that looks for the last dot
  // instead of the second), and payload segments that carry '=' padding (decoding stops there: what follows up to the next dot is unseen)
  for (const char *alg : std::vector<const char *>{"\"none\"", "\"HS256\"", "\"ES256\""}) {
    std::string hj = std::string("{\"alg\":") + alg + "}";
    for (const std::string &P : {b64u_enc(PAYLOAD), std::string("e30="), std::string("e30=="), std::string("eyAgfQ=="), std::string("eyAgfQ="), std::string("e30")}) {
      std::string in2 = b64u_enc(hj) + "." + P;
      shapes.push_back(in2 + "."); shapes.push_back(in2 + "." + b64u_enc(ref_sign(ok64, JWT_ALG_HS256, in2))); shapes.push_back(in2 + "." + b64u_enc(ref_sign(ec, JWT_ALG_ES256, in2)));
      for (const std::string &third : {std::string(""), std::string("abc"), std::string("AAAA"), std::string("x"), std::string("AAAA.BB")}) {
        std::string pre = in2 + "." + third;
        shapes.push_back(pre + "."); shapes.push_back(pre + "." + b64u_enc(ref_sign(ok64, JWT_ALG_HS256, pre))); shapes.push_back(pre + "." + b64u_enc(ref_sign(ec, JWT_ALG_ES256, pre)));
      }
    }
  }
  int idx = 0;
  for (int cfg = 0; cfg < 5; cfg++) {
    for (auto &tok : shapes) {
      if ((idx++ % W) != w) continue;
      use_provider(prov);
      jwt_checker_t *ch = jwt_checker_new();
      LKey *lk = nullptr; const KeySpec *ks = nullptr; bool haskey = false;
      static LKey k_hs_attr(jwk_json(POOL.get("oct64"), [] { JwkOpts o; o.alg = "HS256"; return o; }()));
      static LKey k_hs_none(jwk_json(POOL.get("oct64"), JwkOpts()));
      static LKey k_ec_attr(jwk_json(POOL.get("ec_p256"), [] { JwkOpts o; o.alg = "ES256"; o.priv = false; return o; }()));
      static LKey k_ec_none(jwk_json(POOL.get("ec_p256"), [] { JwkOpts o; o.priv = false; return o; }()));
      switch (cfg) {
      case 0: break;
      case 1: lk = &k_hs_attr; ks = &ok64; jwt_checker_setkey(ch, JWT_ALG_NONE, lk->item); haskey = true; break;
      case 2: lk = &k_hs_none; ks = &ok64; jwt_checker_setkey(ch, JWT_ALG_HS256, lk->item); haskey = true; break;
      case 3: lk = &k_ec_attr; ks = &ec; jwt_checker_setkey(ch, JWT_ALG_NONE, lk->item); haskey = true; break;
      case 4: lk = &k_ec_none; ks = &ec; jwt_checker_setkey(ch, JWT_ALG_ES256, lk->item); haskey = true; break;
      }
      Cell c{prov, R_SETKEY, 0, -1, 0, 0, false, false, tok};
      CUR = c;
      int ret = jwt_checker_verify(ch, tok.c_str());
      st.evaluations++; st.cls(ret == 0 ? "shape-accept" : "shape-reject");
      TokParts tp = split_token(tok); std::string an; bool ha = header_alg(tp, an);
      std::string rj = "{\"kind\":\"shape\",\"prov\":" + std::to_string(prov) + ",\"cfg\":" + std::to_string(cfg) + ",\"token\":" + jstr(tok) + "}";
      if (haskey) {
        if (ret == 0 && (tp.s.empty() || !ha || an == "none" || !ref_valid(*ks, tok)))
          ok = !st.violation("C03:keyed-checker-accepts-unsigned-shape", "checker with key accepted token with empty signature / alg none / invalid signature", rj) && ok;
      } else {
        if (tp.p.find('=') != std::string::npos) st.cls("shapes-with-padded-payload-segment");   // (the lenient reference decoder stops at the first '=' as the library does)
        bool want = tp.ok && ha && an == "none" && tp.s.empty() && tp.p_ok && J::parse(tp.pdec, JSON_DECODE_ANY | JSON_ALLOW_NUL);
        if ((ret == 0) != want)
          ok = !st.violation(std::string("C03:nokey-checker-") + (ret == 0 ? "accepts-non-none-shape" : "rejects-plain-none-token"), "checker without key: verdict differs from (alg exactly none AND empty third segment)", rj) && ok;
      }
      st.nontrivial(fnv(tok) ^ cfg ^ (prov << 8));
      if (st.want_sample()) st.sample(rj);
      jwt_checker_free(ch);
    }
  }
  return ok;
}

// ------------------------------------------------------------------ main
int main(int argc, char **argv) {
  Args a = parse_args(argc, argv);
  PROP_C03 = a.kv.count("prop") && a.kv["prop"] == "C03";
  init_hv(); init_keys(a.thorough());
  cur_case() = [] { return cell_json(CUR); };
  Stats &st = stats();

  if (!a.replay.empty()) {
    J j = J::parse(read_file(a.replay)); if (!j) return 2;
    auto gi = [&](const char *k) { return (int)json_integer_value(json_object_get(j.p, k)); };
    const char *kind = json_string_value(json_object_get(j.p, "kind"));
    if (kind && !strcmp(kind, "refused-setkey")) { std::string d; return refused_history_case(gi("prov"), gi("first"), gi("second"), gi("side"), &d).empty() ? 0 : 3; }
    if (kind && !strcmp(kind, "shape")) {
      // re-run all shapes for that provider (cheap) and report
      bool ok = c03_shapes(gi("prov"), 0, 1); return ok && st.violations.empty() ? 0 : 3;
    }
    Cell c{gi("prov"), gi("route"), gi("E"), json_is_null(json_object_get(j.p, "key")) ? -1 : gi("kc"), gi("hv"), gi("sk"), kind && !strcmp(kind, "builder"), json_is_true(json_object_get(j.p, "pubkey")), ""};
    if (c.kc >= (int)KC.size()) return 2;
    bool ok;
    if (c.builder) ok = builder_cell(c, false);
    else {
      const char *t = json_string_value(json_object_get(j.p, "token"));
      c.token = t ? from_latin1_utf8(t) : "";
      // the saved token, and also a freshly built one for the same cell
      ok = verify_cell(c, false);
      if (ok && c.kc >= 0) { c.token = make_token(*KC[c.kc]->k, HV[c.hv], c.sk); if (!c.token.empty()) ok = verify_cell(c, false); }
    }
    return ok && st.violations.empty() ? 0 : 3;
  }

  const int W = a.nworkers, w = a.worker;
  int cellno = 0;
  for (int prov = 0; prov < 2; prov++) {
    // ---- verify side
    for (int kci = -1; kci < (int)KC.size(); kci++) {
      if (((kci + 1) % W) != w) continue;
      const KeyCfg *kc = kci >= 0 ? KC[kci].get() : nullptr;
      static KeySpec nokey_dummy = oct_key("dummy", 64);
      for (int E = 0; E <= JWT_ALG_INVAL; E++) {
        for (int route = 0; route < R_N; route++) {
          if (!kc && route != R_SETKEY && route != R_CB_BOTH) continue;
          if (PROP_C03 && E != JWT_ALG_NONE && kc && E != kc->attr_alg && kc->has_attr) continue;  // C03 focuses on admitted configs
          for (int hv = 0; hv < (int)HV.size(); hv++) {
            for (int sk = 0; sk < S_NKINDS; sk++) {
              const KeySpec &ks = kc ? *kc->k : nokey_dummy;
              if (!kc && (sk == S_ATT_PEM || sk == S_ATT_RAW || sk == S_NATIVE)) continue;
              if (PROP_C03 && !(sk == S_ABSENT || sk == S_GARBAGE || sk == S_LEN256 || sk == S_LEN64K || sk == S_REALKEY || HV[hv].base == JWT_ALG_NONE)) continue;
              const std::string &tok = token_for(kci, ks, hv, sk);
              if (tok.empty()) continue;
              Cell c{prov, route, E, kci, hv, sk, false, false, tok};
              cellno++;
              if (!verify_cell(c) && st.violations.size() >= 12) goto done;
            }
          }
        }
      }
    }
    // ---- builder side
    for (int kci = -1; kci < (int)KC.size(); kci++) {
      if (((kci + 1) % W) != w) continue;
      for (int E = 0; E <= JWT_ALG_INVAL; E++)
        for (int route = 0; route < R_N; route++)
          for (int pub = 0; pub < 2; pub++) {
            if (kci < 0 && (pub || (route != R_SETKEY && route != R_CB_BOTH))) continue;
            if (route == R_SWAP_KEY) continue;   // builder: the callback is handed the key's alg as config.alg, so a swapped key is judged against THAT alg (modelled in C10/C13)
            Cell c{prov, route, E, kci, 0, 0, true, pub == 1, ""};
            if (!builder_cell(c) && st.violations.size() >= 12) goto done;
          }
    }
    if (!refused_history(prov, w, W)) goto done;
    if (PROP_C03 && !c03_shapes(prov, w, W)) goto done;
  }
done:
  st.extra["key_configs"] = std::to_string(KC.size());
  st.extra["header_variants"] = std::to_string(HV.size());
  return finish();
}
