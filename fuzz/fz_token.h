// shared by fz_token_raw / fz_token_struct (C06): checker configuration table + verify oracle
#pragma once
#include "vfuzz.h"
using namespace vf;
#include <malloc.h>
static std::string ledger_dump() { std::string r = std::to_string(guard_live().size()) + " live:"; int n = 0; for (void *p : guard_live()) { if (n++ > 6) break; size_t u = malloc_usable_size(p); r += " [" + std::to_string(u) + ":" + jstr(std::string((const char *)p, u < 24 ? u : 24)) + "]"; } return r; }

struct Cfg { int prov; const KeySpec *k; std::string attr; jwt_alg_t expl; int exp_leeway; int nbf_leeway; int claims /* 1 iss, 2 sub, 4 aud expected */; bool cb; std::unique_ptr<LKey> lk; };
static std::vector<std::unique_ptr<Cfg>> &CFGS = *new std::vector<std::unique_ptr<Cfg>>;
static Pool &POOL = *new Pool;
static size_t N_OLD_CFGS = 0;

static int ro_cb(jwt_t *jwt, jwt_config_t *) {
  jwt_value_t v = val_get(JWT_VALUE_JSON, NULL);
  if (jwt_claim_get(jwt, &v) == JWT_VALUE_ERR_NONE) app_free(v.json_val);
  v = val_get(JWT_VALUE_STR, "alg"); jwt_header_get(jwt, &v);
  v = val_get(JWT_VALUE_INT, "exp"); jwt_claim_get(jwt, &v);
  return 0;
}

static int refusing_cb(jwt_t *jwt, jwt_config_t *cfg) { ro_cb(jwt, cfg); jwt_value_t v = val_get(JWT_VALUE_STR, "kid"); jwt_header_get(jwt, &v); return 1; }

static void add_cfg(int prov, const char *key, const char *attr, jwt_alg_t expl, int expl_w, int nbf_w, int claims, bool cb) {
  auto c = std::make_unique<Cfg>(); c->prov = prov; c->k = key ? &POOL.get(key) : nullptr; c->attr = attr ? attr : ""; c->expl = expl;
  c->exp_leeway = expl_w; c->nbf_leeway = nbf_w; c->claims = claims; c->cb = cb;
  if (c->k) { JwkOpts o; o.priv = c->k->kind == K_OCT; o.alg = c->attr; c->lk = std::make_unique<LKey>(jwk_json(*c->k, o)); if (!c->lk->ok()) { fprintf(stderr, "cfg key import failed\n"); abort(); } }
  CFGS.push_back(std::move(c));
}
static void init_cfgs() {
  if (!CFGS.empty()) return;
  finit();
  POOL = standard_pool();
  for (int prov = 0; prov < 2; prov++) {
    add_cfg(prov, nullptr, nullptr, JWT_ALG_NONE, 0, 0, false, false);
    add_cfg(prov, nullptr, nullptr, JWT_ALG_NONE, -1, -1, true, true);
    add_cfg(prov, "oct64", nullptr, JWT_ALG_HS256, 0, 0, false, false);
    add_cfg(prov, "oct64", "HS512", JWT_ALG_NONE, -1, 0, false, true);
    add_cfg(prov, "oct64", "HS384", JWT_ALG_HS384, 0, -1, true, false);
    add_cfg(prov, "rsa_2048", nullptr, JWT_ALG_RS256, 0, 0, false, false);
    add_cfg(prov, "rsa_2048", "PS256", JWT_ALG_NONE, -1, -1, false, true);
    add_cfg(prov, "rsa_2048", "RS512", JWT_ALG_RS512, 10, 10, true, false);
    add_cfg(prov, "ec_p256", nullptr, JWT_ALG_ES256, 0, 0, false, false);
    add_cfg(prov, "ec_p256", "ES256", JWT_ALG_NONE, -1, -1, false, true);
    add_cfg(prov, "ec_k256", nullptr, JWT_ALG_ES256, 0, 0, false, false);   // admissible cross-curve pairing
    add_cfg(prov, "ec_p256", nullptr, JWT_ALG_ES256K, 0, 0, false, false);
    add_cfg(prov, "ec_k256", "ES256K", JWT_ALG_NONE, 0, 0, false, false);
    add_cfg(prov, "ec_p384", "ES384", JWT_ALG_ES384, 0, 0, false, false);
    add_cfg(prov, "ec_p521", nullptr, JWT_ALG_ES512, -1, -1, false, false);
    add_cfg(prov, "ed25519", nullptr, JWT_ALG_EDDSA, 0, 0, false, false);
    add_cfg(prov, "ed448", "EdDSA", JWT_ALG_NONE, -1, -1, true, true);
  }
  N_OLD_CFGS = CFGS.size();
  // appended later (indices above stay what the saved corpus and replay inputs mean): expected sub / aud / all three
  for (int prov = 0; prov < 2; prov++) {
    add_cfg(prov, nullptr, nullptr, JWT_ALG_NONE, 0, 0, 7, false);
    add_cfg(prov, nullptr, nullptr, JWT_ALG_NONE, -1, 5, 2, true);
    add_cfg(prov, "oct64", nullptr, JWT_ALG_HS256, 0, 0, 6, false);
    add_cfg(prov, "ec_p256", "ES256", JWT_ALG_NONE, 0, -1, 4, true);
    add_cfg(prov, "ed25519", nullptr, JWT_ALG_EDDSA, -1, -1, 7, false);
  }
  for (int prov = 0; prov < 2; prov++) { add_cfg(prov, nullptr, nullptr, JWT_ALG_NONE, 60, 60, 0, false); add_cfg(prov, "oct64", "HS256", JWT_ALG_NONE, 2147483647, 2147483647, 1, true); }   // positive leeways
}
static jwt_alg_t cfg_alg(const Cfg &c) { return c.expl != JWT_ALG_NONE ? c.expl : c.attr.empty() ? JWT_ALG_NONE : jwt_str_alg(c.attr.c_str()); }

// runs one verify under configuration ci and checks the C06 oracle; returns verdict
static bool G_POLLUTE = false;   // bit 13: OpenSSL's error queue is not empty when the library is called
static bool G_REFUSE = false;   // bit 12: the checker's callback looks at the token and REFUSES it (returns non-zero), as a kid lookup that finds nothing does
static bool G_DIRTY = false;   // bit 14 of the selector: the checker is REUSED - it has already rejected another token (and was not cleared)
static int verify_with_oracle_inner(size_t ci, const std::string &token);
static int verify_with_oracle(size_t ci, const std::string &token) {
  // reset global state: allocator (bit 15 of the selector: the application has installed its own allocator)
  bool guard = (ci >> 15) & 1; G_DIRTY = (ci >> 14) & 1; G_POLLUTE = (ci >> 13) & 1; G_REFUSE = (ci >> 12) & 1; ci &= 0x0fff;
  jwt_set_alloc(NULL, NULL);
  size_t ledger0 = guard_live().size();
  if (guard) { guard_active() = true; guard_foreign_frees() = 0; jwt_set_alloc(guard_malloc, guard_free); fs().cls("with-application-allocator"); }
  int r = verify_with_oracle_inner(ci, token);
  if (guard) { jwt_set_alloc(NULL, NULL); guard_active() = false; if (guard_foreign_frees()) oracle_fail("pointer-not-from-installed-allocator-passed-to-its-free", "cfg=" + std::to_string(ci % CFGS.size()) + " token=" + token.substr(0, 300)); if (guard_live().size() != ledger0) oracle_fail("block-from-installed-allocator-never-returned-to-it", ledger_dump() + " cfg=" + std::to_string(ci % CFGS.size()) + " token=" + token.substr(0, 300)); }
  return r;
}
static int verify_with_oracle_inner(size_t ci, const std::string &token) {
  FStats &st = fs();
  const Cfg &c = *CFGS[ci % CFGS.size()];
  // reset global state: provider, clock
  set_provider(c.prov, G_POLLUTE); if (G_POLLUTE) fs().cls("openssl-error-queue-not-empty");
  set_now(1700000000);
  jwt_checker_t *ch = jwt_checker_new();
  if (c.k) jwt_checker_setkey(ch, c.expl, c.lk->item);
  jwt_checker_time_leeway(ch, JWT_CLAIM_EXP, c.exp_leeway);
  jwt_checker_time_leeway(ch, JWT_CLAIM_NBF, c.nbf_leeway);
  if (c.claims & 1) jwt_checker_claim_set(ch, JWT_CLAIM_ISS, "issuer");
  if (c.claims & 2) jwt_checker_claim_set(ch, JWT_CLAIM_SUB, "subject");
  if (c.claims & 4) jwt_checker_claim_set(ch, JWT_CLAIM_AUD, "audience");
  if (G_REFUSE) { jwt_checker_setcb(ch, refusing_cb, NULL); fs().cls("checker-with-a-refusing-callback"); } else
  if (c.cb) jwt_checker_setcb(ch, ro_cb, NULL);
  if (G_DIRTY) { fs().cls("reused-checker"); jwt_checker_verify(ch, "eyJhbGciOiJub25lIn0.bm90LWpzb24.AAAA"); }
  int ret = jwt_checker_verify(ch, token.c_str());
  int flag = jwt_checker_error(ch);
  std::string msg = jwt_checker_error_msg(ch) ? jwt_checker_error_msg(ch) : "";
  jwt_checker_free(ch);
  st.evaluations++;
  // structural classification by own parser
  TokParts tp = split_token(token);
  std::string an; bool ha = false; bool hobj = false, pjson = false;
  if (tp.ok) {
    st.cls("two-dots");
    if (tp.h_ok) {
      st.cls("header-b64-ok"); st.nt(mix(fnv(token), ci));
      J h = J::parse(tp.hdec, JSON_DECODE_ANY | JSON_ALLOW_NUL); hobj = h && json_is_object(h.p);
      ha = header_alg(tp, an);
      if (hobj) st.cls("header-json-object");
      if (ha && (alg_by_name(an) || an == "none")) st.cls("header-known-alg");
    }
    if (tp.p_ok) { J p = J::parse(tp.pdec, JSON_DECODE_ANY | JSON_ALLOW_NUL); pjson = (bool)p; if (pjson) st.cls("payload-json"); }
  }
  if (msg.find("claims") != std::string::npos) st.cls("reached-claims-rejected");
  if (msg.find("failed verification") != std::string::npos || msg.rfind("JWT[", 0) == 0) st.cls("reached-provider-verify");
  if (ret == 0) st.cls("accepted");
  if ((ret != 0) != (flag != 0)) st.cls("c14-ret-flag-mismatch");  // recorded for C14, not asserted here
  if (ret == 0 && G_REFUSE) oracle_fail("accepted-although-the-callback-refused", "cfg=" + std::to_string(ci % CFGS.size()) + " token=" + token.substr(0, 300));
  if (ret == 0) {
    std::string d = "cfg=" + std::to_string(ci % CFGS.size()) + " token=" + token.substr(0, 300);
    if (!tp.ok) oracle_fail("accepted-without-two-dots", d);
    if (!tp.h_ok || !hobj || !ha || !(alg_by_name(an) || an == "none")) oracle_fail("accepted-header-not-object-with-known-alg", d);
    if (!tp.p_ok || !pjson) oracle_fail("accepted-payload-not-json", d);
    if (c.k) {
      if (tp.s.empty() || an == "none") oracle_fail("keyed-checker-accepted-unsigned", d);
      if (!ref_valid(*c.k, token)) {
        // known dependency finding (nettle ignores the last byte of an Ed448 signature): excluded by construction
        bool ed448_tail = c.prov == 1 && c.k->kind == K_OKP && c.k->bits == 456 && tp.s_ok && tp.sdec.size() == 114 && tp.sdec[113] != 0;
        if (ed448_tail) { std::string z = tp.sdec; z[113] = 0; ed448_tail = ref_verify(*c.k, JWT_ALG_EDDSA, tp.signing_input, z); }
        if (ed448_tail) st.cls("excluded-known-ed448-last-byte"); else oracle_fail("accepted-invalid-signature", d);
      }
    } else if (!(an == "none" && tp.s.empty())) oracle_fail("keyless-checker-accepted-non-none", d);
  }
  sample("{\"cfg\":" + std::to_string(ci % CFGS.size()) + ",\"ret\":" + std::to_string(ret) + ",\"token\":" + jstr(token.substr(0, 200)) + "}");
  return ret;
}

// seed corpus emission: VERIF_EMIT_CORPUS=<dir> ./target   (mode: 0 raw, 1 struct)
static void emit_corpus(int mode) {
  const char *d = getenv("VERIF_EMIT_CORPUS"); if (!d) return;
  const char *pays[] = {"{\"sub\":\"a\",\"iss\":\"issuer\",\"exp\":1800000000,\"nbf\":1600000000}", "{\"exp\":1,\"iss\":\"other\"}", "{\"nbf\":1900000000,\"a\":[1,{\"b\":null}],\"exp\":\"x\"}", "[1,2]",
    // claims of every JSON type (registered claims are typed: RFC 7519 allows aud to be an array)
    "{\"iss\":\"issuer\",\"sub\":\"subject\",\"aud\":\"audience\",\"exp\":1800000000}", "{\"iss\":1,\"sub\":null,\"aud\":[\"audience\",\"b\"],\"exp\":1.8e9,\"nbf\":true}",
    "{\"aud\":{\"x\":1},\"iss\":[],\"sub\":false,\"exp\":null,\"nbf\":[1]}", "{\"iss\":1.5,\"sub\":\"\",\"aud\":0,\"nbf\":\"1\",\"exp\":{}}",
    // time claims at the ends of the integer range (any arithmetic the checker does with them and its leeway must not overflow)
    "{\"iss\":\"issuer\",\"exp\":9223372036854775807,\"nbf\":-9223372036854775808}", "{\"exp\":9223372036854775800,\"nbf\":-9223372036854775800,\"iat\":-1}"};
  for (size_t i = 0; i < CFGS.size(); i++) for (int pi = 0; pi < 10; pi++) {
    if (pi >= 4 && pi < 8 && !CFGS[i]->claims) continue;
    const Cfg &c = *CFGS[i]; jwt_alg_t a = c.k ? cfg_alg(c) : JWT_ALG_NONE;
    std::string h = std::string("{\"alg\":\"") + (a == JWT_ALG_NONE ? "none" : jwt_alg_str(a)) + "\",\"typ\":\"JWT\"}";
    std::string body;
    if (mode == 0) { static KeySpec dummy; body = ref_token(c.k ? *c.k : dummy, a, h, pays[pi]); body = std::string(1, (char)(i & 0xff)) + std::string(1, (char)(i >> 8)) + body; }
    else { std::string in = b64u_enc(h) + "." + b64u_enc(pays[pi]); std::string sig = c.k ? ref_sign(*c.k, a, in) : "";
      int flags = pi == 3 ? 4 : 0; body = std::string(1, (char)(i & 0xff)) + std::string(1, (char)(i >> 8)) + std::string(1, (char)flags) + std::string(1, (char)(h.size() & 0xff)) + std::string(1, (char)(h.size() >> 8)) + std::string(1, (char)(strlen(pays[pi]) & 0xff)) + std::string(1, (char)(strlen(pays[pi]) >> 8)) + h + pays[pi] + sig; }
    std::string fn = std::string(d) + "/seed-" + std::to_string(i) + "-" + std::to_string(pi); FILE *f = fopen(fn.c_str(), "wb"); if (f) { fwrite(body.data(), 1, body.size(), f); fclose(f); }
  }
  // signatures of the right length with a constant fill (0x00, 0xff, 0x80, 0x7f): every integer inside is zero / negative-looking / maximal
  for (size_t i = 0; i < CFGS.size(); i++) { const Cfg &c = *CFGS[i]; if (!c.k) continue; jwt_alg_t a = cfg_alg(c); static KeySpec dummy;
    std::string h = std::string("{\"alg\":\"") + jwt_alg_str(a) + "\"}", pay = "{\"iss\":\"issuer\"}", in = b64u_enc(h) + "." + b64u_enc(pay); std::string good = ref_sign(*c.k, a, in); if (good.empty()) continue;
    int n = 0; for (unsigned char fill : {0x00, 0xff, 0x80, 0x7f}) { std::string sig(good.size(), (char)fill), body;
      if (mode == 0) body = std::string(1, (char)(i & 0xff)) + std::string(1, (char)(i >> 8)) + in + "." + b64u_enc(sig);
      else body = std::string(1, (char)(i & 0xff)) + std::string(1, (char)(i >> 8)) + std::string(1, (char)0) + std::string(1, (char)(h.size() & 0xff)) + std::string(1, (char)(h.size() >> 8)) + std::string(1, (char)(pay.size() & 0xff)) + std::string(1, (char)(pay.size() >> 8)) + h + pay + sig;
      std::string fn = std::string(d) + "/fill-" + std::to_string(i) + "-" + std::to_string(n++); FILE *f = fopen(fn.c_str(), "wb"); if (f) { fwrite(body.data(), 1, body.size(), f); fclose(f); } } }
  // header alg = the pinned name followed by an escaped NUL (and more): whoever reads it as a C string sees a known name
  for (size_t i = 0; i < CFGS.size(); i++) { const Cfg &c = *CFGS[i]; jwt_alg_t a = c.k ? cfg_alg(c) : JWT_ALG_NONE; static KeySpec dummy; int n = 0;
    for (const char *tail : {"\\u0000x", "\\u0000", "\\u0000HS256"}) {
      std::string h = std::string("{\"alg\":\"") + (a == JWT_ALG_NONE ? "none" : jwt_alg_str(a)) + tail + "\",\"typ\":\"JWT\"}", pay = "{\"iss\":\"issuer\",\"sub\":\"subject\",\"aud\":\"audience\"}", in = b64u_enc(h) + "." + b64u_enc(pay);
      std::string sig = c.k ? ref_sign(*c.k, a, in) : std::string(), body;
      if (mode == 0) body = std::string(1, (char)(i & 0xff)) + std::string(1, (char)(i >> 8)) + in + "." + b64u_enc(sig);
      else body = std::string(1, (char)(i & 0xff)) + std::string(1, (char)(i >> 8)) + std::string(1, (char)0) + std::string(1, (char)(h.size() & 0xff)) + std::string(1, (char)(h.size() >> 8)) + std::string(1, (char)(pay.size() & 0xff)) + std::string(1, (char)(pay.size() >> 8)) + h + pay + sig;
      std::string fn = std::string(d) + "/nul-" + std::to_string(i) + "-" + std::to_string(n++); FILE *f = fopen(fn.c_str(), "wb"); if (f) { fwrite(body.data(), 1, body.size(), f); fclose(f); } } }
  // (raw target) a header or payload segment of 4k+1 characters - not decodable at all - in a token that is otherwise in order
  // (signed over that very text by the configured key): must be rejected, not decoded up to the last complete group
  if (mode == 0) for (size_t i = 0; i < CFGS.size(); i++) { const Cfg &c = *CFGS[i]; jwt_alg_t a = c.k ? cfg_alg(c) : JWT_ALG_NONE; static KeySpec dummy;
    std::string h = std::string("{\"alg\":\"") + (a == JWT_ALG_NONE ? "none" : jwt_alg_str(a)) + "\"}", pay = "{\"iss\":\"issuer\",\"sub\":\"subject\",\"aud\":\"audience\"}";
    while (h.size() % 3) h.insert(h.size() - 1, " "); while (pay.size() % 3) pay.insert(pay.size() - 1, " ");
    int n = 0; for (int which = 0; which < 2; which++) { std::string in = b64u_enc(h) + (which == 0 ? "A" : "") + "." + b64u_enc(pay) + (which == 1 ? "A" : "");
      std::string sig = c.k ? ref_sign(*c.k, a, in) : std::string(); std::string body = std::string(1, (char)(i & 0xff)) + std::string(1, (char)(i >> 8)) + in + "." + b64u_enc(sig);
      std::string fn = std::string(d) + "/len4k1-" + std::to_string(i) + "-" + std::to_string(n++); FILE *f = fopen(fn.c_str(), "wb"); if (f) { fwrite(body.data(), 1, body.size(), f); fclose(f); } } }
  // header alg members of every shape around a name: empty, one character, a name cut short / extended / in other case, not a string, absent
  for (size_t i = 0; i < CFGS.size(); i += 3) { const Cfg &c = *CFGS[i]; jwt_alg_t a = c.k ? cfg_alg(c) : JWT_ALG_NONE; std::string nm = a == JWT_ALG_NONE ? "none" : jwt_alg_str(a); int n = 0;
    std::string lower = nm; for (auto &ch : lower) ch = (char)tolower((unsigned char)ch);
    for (const std::string &av : {std::string("\"\""), std::string("\" \""), "\"" + nm.substr(0, 1) + "\"", "\"" + nm.substr(0, nm.size() - 1) + "\"", "\"" + nm + nm.substr(nm.size() - 1) + "\"", "\"" + lower + "\"", std::string("1"), std::string("null"), std::string("[]"), std::string("{}"), std::string("true"), std::string()}) {
      std::string h = av.empty() ? std::string("{\"typ\":\"JWT\"}") : "{\"alg\":" + av + ",\"typ\":\"JWT\"}", pay = "{\"iss\":\"issuer\",\"sub\":\"subject\",\"aud\":\"audience\"}", in = b64u_enc(h) + "." + b64u_enc(pay);
      std::string sig = c.k ? ref_sign(*c.k, a, in) : std::string(), body;
      if (mode == 0) body = std::string(1, (char)(i & 0xff)) + std::string(1, (char)(i >> 8)) + in + "." + b64u_enc(sig);
      else body = std::string(1, (char)(i & 0xff)) + std::string(1, (char)(i >> 8)) + std::string(1, (char)0) + std::string(1, (char)(h.size() & 0xff)) + std::string(1, (char)(h.size() >> 8)) + std::string(1, (char)(pay.size() & 0xff)) + std::string(1, (char)(pay.size() >> 8)) + h + pay + sig;
      std::string fn = std::string(d) + "/algshape-" + std::to_string(i) + "-" + std::to_string(n++); FILE *f = fopen(fn.c_str(), "wb"); if (f) { fwrite(body.data(), 1, body.size(), f); fclose(f); } } }
  // unknown alg names of lengths around the size of the library's message buffer (256) and far beyond
  for (size_t i = 0; i < CFGS.size(); i += 5) { const Cfg &c = *CFGS[i]; jwt_alg_t a = c.k ? cfg_alg(c) : JWT_ALG_NONE; int n = 0;
    for (size_t len : {200, 239, 240, 241, 255, 256, 257, 300, 1000, 5000, 20000}) {
      std::string h = "{\"alg\":\"" + std::string(len, 'Q') + "\",\"typ\":\"JWT\"}", pay = "{\"iss\":\"issuer\"}", in = b64u_enc(h) + "." + b64u_enc(pay);
      std::string sig = c.k ? ref_sign(*c.k, a, in) : std::string(), body;
      if (mode == 0) body = std::string(1, (char)(i & 0xff)) + std::string(1, (char)(i >> 8)) + in + "." + b64u_enc(sig);
      else body = std::string(1, (char)(i & 0xff)) + std::string(1, (char)(i >> 8)) + std::string(1, (char)0) + std::string(1, (char)(h.size() & 0xff)) + std::string(1, (char)(h.size() >> 8)) + std::string(1, (char)(pay.size() & 0xff)) + std::string(1, (char)(pay.size() >> 8)) + h + pay + sig;
      std::string fn = std::string(d) + "/alglong-" + std::to_string(i) + "-" + std::to_string(n++); FILE *f = fopen(fn.c_str(), "wb"); if (f) { fwrite(body.data(), 1, body.size(), f); fclose(f); } } }
  // valid tokens for a checker whose callback refuses them (selector bit 12)
  for (size_t i = 0; i < CFGS.size(); i += 2) { const Cfg &c = *CFGS[i]; jwt_alg_t a = c.k ? cfg_alg(c) : JWT_ALG_NONE; static KeySpec dummy; size_t sel = i | 0x1000 | ((i & 4) ? 0x8000 : 0);
    std::string h = std::string("{\"alg\":\"") + (a == JWT_ALG_NONE ? "none" : jwt_alg_str(a)) + "\",\"kid\":\"unknown\"}", pay = "{\"iss\":\"issuer\",\"sub\":\"subject\",\"aud\":\"audience\",\"n\":[1,{\"deep\":[true,null]}]}", in = b64u_enc(h) + "." + b64u_enc(pay);
    std::string sig = c.k ? ref_sign(*c.k, a, in) : std::string(), body;
    if (mode == 0) body = std::string(1, (char)(sel & 0xff)) + std::string(1, (char)(sel >> 8)) + in + "." + b64u_enc(sig);
    else body = std::string(1, (char)(sel & 0xff)) + std::string(1, (char)(sel >> 8)) + std::string(1, (char)0) + std::string(1, (char)(h.size() & 0xff)) + std::string(1, (char)(h.size() >> 8)) + std::string(1, (char)(pay.size() & 0xff)) + std::string(1, (char)(pay.size() >> 8)) + h + pay + sig;
    std::string fn = std::string(d) + "/refuse-" + std::to_string(i); FILE *f = fopen(fn.c_str(), "wb"); if (f) { fwrite(body.data(), 1, body.size(), f); fclose(f); } }
  // a few long inputs (tens of kilobytes): valid long token, long garbage in each segment
  for (size_t i = 2; i < CFGS.size(); i += 21) {
    const Cfg &c = *CFGS[i]; jwt_alg_t a = c.k ? cfg_alg(c) : JWT_ALG_NONE; static KeySpec dummy;
    std::string h = std::string("{\"alg\":\"") + (a == JWT_ALG_NONE ? "none" : jwt_alg_str(a)) + "\"}", pay = "{\"exp\":1800000000,\"big\":\"" + std::string(30000, 'y') + "\"}";
    std::vector<std::string> bodies;
    if (mode == 0) { std::string pre = std::string(1, (char)(i & 0xff)) + std::string(1, (char)(i >> 8)); bodies.push_back(pre + ref_token(c.k ? *c.k : dummy, a, h, pay)); bodies.push_back(pre + std::string(20000, 'A') + "." + std::string(20000, 'B') + "." + std::string(20000, 'C')); bodies.push_back(pre + b64u_enc(h) + "." + std::string(40001, 'Q') + "."); }
    else { std::string in = b64u_enc(h) + "." + b64u_enc(pay); std::string sig = c.k ? ref_sign(*c.k, a, in) : ""; bodies.push_back(std::string(1, (char)(i & 0xff)) + std::string(1, (char)(i >> 8)) + std::string(1, (char)4) + std::string(1, (char)(h.size() & 0xff)) + std::string(1, (char)(h.size() >> 8)) + std::string(1, (char)(pay.size() & 0xff)) + std::string(1, (char)(pay.size() >> 8)) + h + pay + sig); }
    int n = 0; for (auto &b : bodies) { std::string fn = std::string(d) + "/long-" + std::to_string(i) + "-" + std::to_string(n++); FILE *f = fopen(fn.c_str(), "wb"); if (f) { fwrite(b.data(), 1, b.size(), f); fclose(f); } }
  }
  exit(0);
}
