// C05 - every generated token verifies (all signer/verifier provider pairs) and delivers the same header and
// claims: rapidcheck over keys x algs x JSON trees; plus an ECDSA volume phase that hunts short r/s values.
#include <rapidcheck.h>
#include "vlib.h"
#include "vkeys.h"
#include <climits>
using namespace v;
template <typename T> static rc::Gen<T> UNI(T lo, T hi) { return rc::gen::resize(100, rc::gen::inRange<T>(lo, hi)); }

static Pool POOL;
struct KA { const KeySpec *k; jwt_alg_t alg; std::string attr; };   // attr "" => alg given explicitly, else key alg attr (explicit none)
static std::vector<KA> CELLS;
static std::map<std::string, std::unique_ptr<LKey>> LK;
static const LKey &lkey(const KeySpec &k, const std::string &attr, bool priv) {
  std::string id = k.name + "|" + attr + (priv ? "|priv" : "|pub");
  auto it = LK.find(id); if (it != LK.end()) return *it->second;
  JwkOpts o; o.priv = priv || k.kind == K_OCT; o.alg = attr; auto p = std::make_unique<LKey>(jwk_json(k, o));
  if (!p->ok()) { fprintf(stderr, "import failed %s\n", id.c_str()); exit(2); }
  return *(LK[id] = std::move(p));
}

// ------------------------------------------------------------------ JSON tree generator
struct TreeStats { int depth = 0; bool nonascii = false, bigint = false, longstr = false, real = false, nul = false; };
static std::string gen_string(TreeStats &ts, bool key) {
  int kind = *rc::gen::weightedElement<int>({{6, 0}, {3, 1}, {1, 2}, {1, 3}});
  int len = kind == 3 && !key ? *UNI(2000, 8192) : *UNI(0, kind == 2 ? 40 : 12);
  if (kind == 3 && !key) ts.longstr = true;
  std::string s;
  for (int i = 0; i < len; i++) {
    int c = *rc::gen::weightedElement<int>({{10, 0}, {2, 1}, {2, 2}, {1, 3}, {1, 4}});
    uint32_t cp;
    switch (c) { case 0: cp = *UNI(0x20, 0x7f); break; case 1: cp = *UNI(0xa0, 0x800); break; case 2: cp = *UNI(0x3000, 0x9fff); break; case 3: cp = *UNI(0x1f300, 0x1f700); break; default: cp = *rc::gen::element<uint32_t>(1, 9, 10, 13, 0x22, 0x5c, 0x2f, 0x7f, 0x2028, 0xfffd); }
    if (cp >= 0x80) ts.nonascii = true;
    if (cp < 0x80) s += (char)cp; else if (cp < 0x800) { s += (char)(0xc0 | (cp >> 6)); s += (char)(0x80 | (cp & 0x3f)); }
    else if (cp < 0x10000) { s += (char)(0xe0 | (cp >> 12)); s += (char)(0x80 | ((cp >> 6) & 0x3f)); s += (char)(0x80 | (cp & 0x3f)); }
    else { s += (char)(0xf0 | (cp >> 18)); s += (char)(0x80 | ((cp >> 12) & 0x3f)); s += (char)(0x80 | ((cp >> 6) & 0x3f)); s += (char)(0x80 | (cp & 0x3f)); }
  }
  return s;
}
static const char *SPECIAL_KEYS[] = {"alg", "typ", "iat", "nbf", "exp", "iss", "sub", "aud", "kid", "cty"};
static J gen_json(int depth, TreeStats &ts, bool top) {
  if (depth > ts.depth) ts.depth = depth;
  int kind = top ? 6 : *rc::gen::weightedElement<int>({{3, 0}, {3, 1}, {1, 2}, {1, 3}, {1, 4}, {depth < 6 ? 2 : 0, 5}, {depth < 6 ? 2 : 0, 6}});
  switch (kind) {
  case 0: { int w = *rc::gen::weightedElement<int>({{5, 0}, {2, 1}, {1, 2}}); json_int_t v = w == 0 ? *UNI<long long>(-1000, 1000) : w == 1 ? *rc::gen::element<long long>(LLONG_MIN, LLONG_MAX, LLONG_MIN + 1, LLONG_MAX - 1, 1LL << 53, (1LL << 53) + 1, -(1LL << 53) - 1, 4102444800LL) : *UNI<long long>(LLONG_MIN / 2, LLONG_MAX / 2) * 2;
    if (v > (1LL << 53) || v < -(1LL << 53)) ts.bigint = true; return J(json_integer(v)); }
  case 1: { std::string sv = gen_string(ts, false);
      // now and then a string with U+0000 inside (legal JSON text "\u0000"): the builder may refuse it; if it takes it, the token must still be readable
      if (*UNI(0, 40) == 0) { sv.insert(sv.size() / 2, 1, '\0'); ts.nul = true; return J(json_stringn(sv.data(), sv.size())); }
      return J(json_string(sv.c_str())); }
  case 2: { ts.real = true; double d = *rc::gen::element(0.5, -1.25, 1e10, 3.141592653589793, 1e-7, 1.7976931348623157e308, 5e-324, 123456789.123456789, -0.0, 2.5e15); return J(json_real(d)); }
  case 3: return J(json_boolean(*UNI(0, 2)));
  case 4: return J(json_null());
  case 5: { int n = *UNI(0, 5); json_t *a = json_array(); for (int i = 0; i < n; i++) { J e = gen_json(depth + 1, ts, false); json_array_append(a, e.p); } return J(a); }
  default: { int n = top ? *UNI(0, 8) : *UNI(0, 5); json_t *o = json_object();
    for (int i = 0; i < n; i++) { std::string k = *UNI(0, 4) == 0 ? SPECIAL_KEYS[*UNI(0, 10)] : gen_string(ts, true); if (k.empty()) k = "e"; J e = gen_json(depth + 1, ts, false); json_object_set(o, k.c_str(), e.p); } return J(o); }
  }
}

// ------------------------------------------------------------------ one round trip
struct RdCtx { J header, claims; bool ran = false; bool ok = true; std::string why; };
static int read_cb(jwt_t *jwt, jwt_config_t *c) {
  RdCtx *x = (RdCtx *)c->ctx; x->ran = true;
  // an application that does not know the types in advance probes: typed reads of present members with every type and of absent
  // ones (these return TYPE / NOEXIST; reading is all the callback does)
  { jwt_value_t g; for (const char *n : {"alg", "typ", "iat", "exp", "sub", "nosuch"}) for (int ty = JWT_VALUE_INT; ty <= JWT_VALUE_BOOL; ty++) { g = val_get((jwt_value_type_t)ty, n); jwt_header_get(jwt, &g); g = val_get((jwt_value_type_t)ty, n); jwt_claim_get(jwt, &g); } }
  jwt_value_t v = val_get(JWT_VALUE_JSON, nullptr);
  if (jwt_header_get(jwt, &v) || !v.json_val) { x->ok = false; x->why = "header_get-failed"; return 0; }
  J h = J::parse(v.json_val); free(v.json_val);
  v = val_get(JWT_VALUE_JSON, nullptr);
  if (jwt_claim_get(jwt, &v) || !v.json_val) { x->ok = false; x->why = "claim_get-failed"; return 0; }
  J p = J::parse(v.json_val); free(v.json_val);
  if (!jeq(h, x->header)) { x->ok = false; x->why = "header-read-in-callback-differs"; }
  else if (!jeq(p, x->claims)) { x->ok = false; x->why = "claims-read-in-callback-differ"; }
  return 0;
}

struct Case { int cell, sprov, vprov, mode; long long now; int iat; long nbf_off, exp_off; std::string header_json, claims_json, token; };
static Case CUR;
static std::string case_json(const Case &c) {
  return "{\"key\":\"" + CELLS[c.cell].k->name + "\",\"alg\":\"" + jwt_alg_str(CELLS[c.cell].alg) + "\",\"attr\":\"" + CELLS[c.cell].attr + "\",\"cell\":" + std::to_string(c.cell) + ",\"sign_provider\":" + std::to_string(c.sprov) + ",\"verify_provider\":" + std::to_string(c.vprov) +
         ",\"mode\":" + std::to_string(c.mode) + ",\"now\":" + std::to_string(c.now) + ",\"iat\":" + std::to_string(c.iat) + ",\"nbf_off\":" + std::to_string(c.nbf_off) + ",\"exp_off\":" + std::to_string(c.exp_off) + ",\"headers\":" + jstr(c.header_json.substr(0, 60000)) + ",\"claims\":" + jstr(c.claims_json.substr(0, 120000)) + ",\"token\":" + jstr(c.token.substr(0, 400000)) + "}";
}
static bool gn_unsupported(const KA &ka) { return ka.alg == JWT_ALG_ES256K || ka.k->crv == "secp256k1"; }

static bool has_nul(json_t *j) {
  if (json_is_string(j)) return json_string_length(j) != strlen(json_string_value(j));
  if (json_is_array(j)) { size_t i; json_t *e; json_array_foreach(j, i, e) if (has_nul(e)) return true; return false; }
  if (json_is_object(j)) { const char *k; json_t *e; json_object_foreach(j, k, e) if (has_nul(e)) return true; return false; }
  return false;
}
// mode bit 2 (value 4): builder and checker get their key from a callback (the key alone when it names its algorithm, key and algorithm otherwise)
struct KeyCtx { const jwk_item_t *item; jwt_alg_t alg; void *inner; };
static int key_cb(jwt_t *, jwt_config_t *c) { KeyCtx *x = (KeyCtx *)c->ctx; c->key = x->item; if (x->alg != JWT_ALG_NONE) c->alg = x->alg; return 0; }
static int key_then_read_cb(jwt_t *jwt, jwt_config_t *c) { KeyCtx *x = (KeyCtx *)c->ctx; c->key = x->item; if (x->alg != JWT_ALG_NONE) c->alg = x->alg; jwt_config_t inner = *c; inner.ctx = x->inner; return read_cb(jwt, &inner); }
// value of nesting depth d set by name (or inside a whole object): "" = refused by the builder or round-trips; else why not. *refused tells which.
static std::string nest_case(int d, int kind, int hdr, int named, int prov, bool *refused) {
  std::string js; for (int i = 0; i < d; i++) js += kind == 1 ? "{\"a\":" : "["; js += kind == 1 ? "1" : kind == 2 ? "\"s\"" : ""; for (int i = 0; i < d; i++) js += kind == 1 ? "}" : "]";
  std::string whole = "{\"deep\":" + js + "}";
  set_provider(prov); set_now(1700000000);
  jwt_builder_t *b = jwt_builder_new(); jwt_value_t v = named ? val_json("deep", js.c_str(), 1) : val_json(nullptr, whole.c_str(), 1);
  int sr = hdr ? jwt_builder_header_set(b, &v) : jwt_builder_claim_set(b, &v);
  char *t = sr ? nullptr : jwt_builder_generate(b); std::string why;
  if (t) { jwt_checker_t *ch = jwt_checker_new(); if (jwt_checker_verify(ch, t)) why = std::string("checker-rejects-generated-token:nesting-depth:") + (jwt_checker_error_msg(ch) ? jwt_checker_error_msg(ch) : ""); jwt_checker_free(ch); }
  free(t); jwt_builder_free(b); if (refused) *refused = sr != 0; return why;
}
static std::string run_case(Case &c, bool *short_rs = nullptr) {
  CUR = c; const KA &ka = CELLS[c.cell];
  J hdr = J::parse(c.header_json, JSON_ALLOW_NUL), clm = J::parse(c.claims_json, JSON_ALLOW_NUL);
  if (!hdr || !clm) return "harness-bad-json";
  bool nul = has_nul(hdr.p) || has_nul(clm.p), refused_nul = false;
  set_provider(c.sprov); set_now((time_t)c.now);
  jwt_builder_t *b = jwt_builder_new();
  const LKey &priv = lkey(*ka.k, ka.attr, true);
  // mode bit 3 (value 8): the objects are RE-KEYED by setkey - they held another key with another algorithm before (key rotation on a long-lived object); not combined with keys from callbacks, where the earlier explicit algorithm rightly stays pinned
  if ((c.mode & 8) && !(c.mode & 4)) { const KeySpec &ok = POOL.get("oct64"); const LKey &old = lkey(ok, "", true); jwt_builder_setkey(b, ka.alg == JWT_ALG_HS512 ? JWT_ALG_HS256 : JWT_ALG_HS512, old.item); }
  KeyCtx bkx{priv.item, ka.attr.empty() ? ka.alg : JWT_ALG_NONE, nullptr};
  if (c.mode & 4) { if (jwt_builder_setcb(b, key_cb, &bkx)) { jwt_builder_free(b); return "setcb-refused"; } }
  else
  if (jwt_builder_setkey(b, ka.attr.empty() ? ka.alg : JWT_ALG_NONE, priv.item)) { jwt_builder_free(b); return "setkey-refused-admissible-pair"; }
  // mode bit 4 (value 16): the builder is not fresh - it has already produced a token, with other time settings and another claim (since deleted)
  if ((c.mode & 16) && c.token.empty()) { jwt_builder_enable_iat(b, 1); jwt_builder_time_offset(b, JWT_CLAIM_NBF, 7200); jwt_builder_time_offset(b, JWT_CLAIM_EXP, 10); jwt_value_t ev = val_str("earlier", "token", 1); jwt_builder_claim_set(b, &ev);
    char *early = jwt_builder_generate(b); free(early); jwt_builder_claim_del(b, "earlier"); jwt_builder_error_clear(b); stats().cls("builders-that-produced-an-earlier-token-with-other-time-settings"); }
  jwt_builder_enable_iat(b, c.iat); jwt_builder_time_offset(b, JWT_CLAIM_NBF, c.nbf_off); jwt_builder_time_offset(b, JWT_CLAIM_EXP, c.exp_off);
  std::string bad;
  auto put = [&](bool header, J &obj) {
    if ((c.mode & 1) == 0) { std::string txt = obj.dump(JSON_COMPACT); jwt_value_t v = val_json(nullptr, txt.c_str(), 1); if (header ? jwt_builder_header_set(b, &v) : jwt_builder_claim_set(b, &v)) { if (nul) refused_nul = true; else bad = "whole-object-set-refused"; } return; }
    const char *k; json_t *val; json_object_foreach(obj.p, k, val) {
      jwt_value_t v; std::string txt;
      if (json_is_integer(val)) v = val_int(k, (long)json_integer_value(val), 1); else if (json_is_string(val) && !has_nul(val)) v = val_str(k, json_string_value(val), 1); else if (json_is_boolean(val)) v = val_bool(k, json_is_true(val), 1);
      else if (json_is_object(val) || json_is_array(val)) { txt = J(json_incref(val)).dump(JSON_COMPACT); v = val_json(k, txt.c_str(), 1); }
      else { J w(json_pack("{sO}", k, val)); txt = w.dump(JSON_COMPACT); v = val_json(nullptr, txt.c_str(), 1); }   // real/null members: through a one-member merge
      if (header ? jwt_builder_header_set(b, &v) : jwt_builder_claim_set(b, &v)) { if (has_nul(val)) refused_nul = true; else bad = std::string("typed-set-refused:") + k; }
    }
  };
  put(true, hdr); put(false, clm);
  if (!bad.empty()) { jwt_builder_free(b); return bad; }
  if (refused_nul) { jwt_builder_free(b); stats().cls("tree-with-U+0000-refused-by-the-builder"); return ""; }   // no token: nothing to verify
  if (c.token.empty()) {
    char *out = jwt_builder_generate(b);
    std::string berr = jwt_builder_error_msg(b) ? jwt_builder_error_msg(b) : "";
    if (!out) { jwt_builder_free(b); return "generate-returned-null:" + berr.substr(0, 40); }
    c.token = out; free(out);
  }   // else: replay of a saved token (signatures are randomized; the saved artifact is the reproducible unit)
  jwt_builder_free(b);
  CUR = c;
  // model of what the token must say
  J mh(json_deep_copy(hdr.p)), mc(json_deep_copy(clm.p));
  if (!json_object_get(mh.p, "typ")) json_object_set_new(mh.p, "typ", json_string("JWT"));
  json_object_set_new(mh.p, "alg", json_string(jwt_alg_str(ka.alg)));
  if (c.iat) json_object_set_new(mc.p, "iat", json_integer(c.now));
  if (c.nbf_off > 0) json_object_set_new(mc.p, "nbf", json_integer(c.now + c.nbf_off));
  if (c.exp_off > 0) json_object_set_new(mc.p, "exp", json_integer(c.now + c.exp_off));
  // independent check of the signature format
  if (!ref_valid(*ka.k, c.token)) return "reference-verifier-rejects-generated-token";
  if (short_rs && ka.k->kind == K_EC) { TokParts tp = split_token(c.token); size_t w = (ka.k->bits + 7) / 8; *short_rs = tp.sdec.size() == 2 * w && (tp.sdec[0] == 0 || tp.sdec[w] == 0); }
  // segments written as unpadded base64url
  { TokParts tp = split_token(c.token); std::string d; if (!is_b64u_text(tp.h) || !is_b64u_text(tp.p) || !is_b64u_text(tp.s) || !b64u_dec_strict(tp.s, d) || b64u_enc(d) != tp.s) return "segment-not-canonical-base64url"; }
  // library checker under the verifying provider, with the public (or same symmetric) key and the same alg
  set_provider(c.vprov);
  jwt_checker_t *ch = jwt_checker_new(); RdCtx rc; rc.header = mh; rc.claims = mc;
  const LKey &pub = lkey(*ka.k, ka.attr, false);
  if ((c.mode & 8) && !(c.mode & 4)) { const KeySpec &ok = POOL.get("oct64"); const LKey &old = lkey(ok, "", true); jwt_checker_setkey(ch, ka.alg == JWT_ALG_HS512 ? JWT_ALG_HS256 : JWT_ALG_HS512, old.item); }
  KeyCtx ckx{pub.item, ka.attr.empty() ? ka.alg : JWT_ALG_NONE, &rc};
  if (!(c.mode & 4))
  if (jwt_checker_setkey(ch, ka.attr.empty() ? ka.alg : JWT_ALG_NONE, pub.item)) { jwt_checker_free(ch); return "checker-setkey-refused"; }
  jwt_checker_time_leeway(ch, JWT_CLAIM_NBF, c.nbf_off > 0 ? c.nbf_off : 0);   // the token is not-before now+offset: allow it
  if (c.mode & 2) {   // the checker is not fresh: it has just rejected a damaged copy of this token and garbage (no error_clear)
    std::string dmg = c.token; dmg[dmg.size() / 2] = dmg[dmg.size() / 2] == 'A' ? 'B' : 'A';
    jwt_checker_verify(ch, dmg.c_str()); jwt_checker_verify(ch, "garbage"); }
  if (c.mode & 4) jwt_checker_setcb(ch, key_then_read_cb, &ckx); else
  jwt_checker_setcb(ch, read_cb, &rc);
  int ret = jwt_checker_verify(ch, c.token.c_str());
  std::string msg = jwt_checker_error_msg(ch) ? jwt_checker_error_msg(ch) : "";
  jwt_checker_free(ch);
  if (ret) return std::string("checker-rejects-generated-token") + ((c.mode & 2) ? "(reused-checker)" : "") + ":" + msg.substr(0, 50);
  if (!rc.ran) return "callback-not-run";
  if (!rc.ok) return rc.why;
  return "";
}

int main(int argc, char **argv) {
  Args a = parse_args(argc, argv);
  POOL = standard_pool();
  std::vector<std::string> names = {"oct32", "oct64", "oct77", "rsa_2048", "ec_p256", "ec_p384", "ec_p521", "ec_k256", "ed25519", "ed448"};
  if (a.thorough()) { names.push_back("rsa_3072"); names.push_back("rsa_4096"); names.push_back("oct48"); names.push_back("rsa_2048b"); }
  static std::vector<KeySpec> fresh;
  if (a.thorough()) { fresh.reserve(8); for (const char *w : {"P-256", "P-384", "P-521", "secp256k1", "ed25519", "ed448", "rsa2048"}) fresh.push_back(gen_key(w)); }
  static KeySpec rsa2050 = load_fixture("rsa_2050");   // modulus length not a multiple of 8 bits
  std::vector<const KeySpec *> ks; for (auto &n : names) ks.push_back(&POOL.get(n)); ks.push_back(&rsa2050); for (auto &f : fresh) ks.push_back(&f);
  for (auto *k : ks) for (auto &al : ALGS) if (strength_ok(*k, al.alg)) { CELLS.push_back({k, al.alg, ""}); CELLS.push_back({k, al.alg, al.name}); }
  cur_case() = [] { return case_json(CUR); };
  Stats &st = stats();
  if (!a.replay.empty()) {
    J j = J::parse(read_file(a.replay)); if (!j) return 2;
    auto gi = [&](const char *k) { return (long long)json_integer_value(json_object_get(j.p, k)); };
    if (json_object_get(j.p, "kind")) { std::string w = nest_case((int)gi("depth"), (int)gi("value_kind"), (int)gi("header"), (int)gi("named"), (int)gi("prov"), nullptr); if (!w.empty()) fprintf(stderr, "replay: %s\n", w.c_str()); return w.empty() ? 0 : 3; }
    Case c; c.cell = (int)gi("cell"); if (c.cell >= (int)CELLS.size()) return 2; c.sprov = (int)gi("sign_provider"); c.vprov = (int)gi("verify_provider"); c.mode = (int)gi("mode"); c.now = gi("now"); c.iat = (int)gi("iat"); c.nbf_off = (long)gi("nbf_off"); c.exp_off = (long)gi("exp_off");
    c.header_json = from_latin1_utf8(json_string_value(json_object_get(j.p, "headers"))); c.claims_json = from_latin1_utf8(json_string_value(json_object_get(j.p, "claims")));
    const char *tk = json_string_value(json_object_get(j.p, "token")); std::string saved = tk ? from_latin1_utf8(tk) : "";
    std::string r; if (!saved.empty() && saved.size() < 399999) { c.token = saved; r = run_case(c); }   // first the saved token itself
    for (int i = 0; i < 5 && r.empty(); i++) { c.token.clear(); r = run_case(c); }                     // then fresh signatures
    if (!r.empty()) fprintf(stderr, "replay: %s\n", r.c_str());
    return r.empty() ? 0 : 3;
  }
  // ---- phase 2 first (fixed budget): ECDSA volume, hunting short r / s
  {
    int per = a.thorough() ? 3000 : 260; std::map<std::string, int> shorts;
    for (const char *kn : {"ec_p256", "ec_p384", "ec_p521", "ec_k256"}) for (int sprov = 0; sprov < 2; sprov++) {
      int cell = -1; for (size_t i = 0; i < CELLS.size(); i++) if (CELLS[i].k->name == kn && CELLS[i].attr.empty() && CELLS[i].alg != JWT_ALG_ES256K) { cell = (int)i; break; }
      if (cell < 0 || (sprov == 1 && gn_unsupported(CELLS[cell]))) continue;
      int nn = std::string(kn) == "ec_p521" ? per / 4 : per;
      for (int i = 0; i < nn; i++) {
        Case c; c.cell = cell; c.sprov = sprov; c.vprov = gn_unsupported(CELLS[cell]) ? 0 : (i & 1); c.mode = 0; c.now = 1700000000 + i + a.worker * 100000 + (long long)a.seed * 10000000; c.iat = 1; c.nbf_off = 0; c.exp_off = 60;
        c.header_json = "{}"; c.claims_json = "{\"n\":" + std::to_string(i) + "}";
        bool sh = false; std::string r = run_case(c, &sh); st.evaluations++;
        std::string cl = std::string("ecdsa:") + kn + ":signer=" + prov_name(sprov);
        st.cls(cl); if (sh) { st.cls(cl + ":short-r-or-s"); st.nontrivial(fnv(c.token)); if (st.want_sample()) st.sample(case_json(c)); }
        if (!r.empty() && !st.is_known("C05:" + r)) { st.violation("C05:" + r, "generated ECDSA token does not round-trip: " + r, case_json(c)); break; }
      }
    }
  }
  if (!st.violations.empty()) return finish();
  // ---- nesting at the parser's limit: a value the builder accepts must give a token a checker can read (refusing the value is fine)
  { int idx = 0;
    for (int d = 2040; d <= 2052; d++) for (int kind = 0; kind < 3; kind++) for (int hdr = 0; hdr < 2; hdr++) for (int named = 0; named < 2; named++) for (int prov = 0; prov < 2; prov++) {
      if ((idx++ % a.nworkers) != a.worker) continue;
      bool refused = false; std::string why = nest_case(d, kind, hdr, named, prov, &refused); int sr = refused;
      st.evaluations++; st.cls(sr ? "nesting-limit:value-refused" : "nesting-limit:token-round-trips"); if (!sr) st.nontrivial(mix(mix(d, kind), mix(hdr * 2 + named, prov)));
      if (!why.empty() && !st.is_known("C05:" + why)) { st.violation("C05:" + why.substr(0, 60), "a JSON value of nesting depth " + std::to_string(d) + " was accepted by the builder but the token cannot be parsed", "{\"kind\":\"nesting\",\"depth\":" + std::to_string(d) + ",\"value_kind\":" + std::to_string(kind) + ",\"header\":" + std::to_string(hdr) + ",\"named\":" + std::to_string(named) + ",\"prov\":" + std::to_string(prov) + "}"); break; }
    } }
  if (!st.violations.empty()) return finish();
  uint64_t n = a.thorough() ? 12000 : 450;
  if (a.kv.count("cases")) n = strtoull(a.kv["cases"].c_str(), 0, 10);
  std::string params = "seed=" + std::to_string(a.seed * 1000 + a.worker) + " max_success=" + std::to_string(n) + " max_size=100";
  setenv("RC_PARAMS", params.c_str(), 1);
  Case lastfail; std::string lastwhy;
  bool ok = rc::check("C05: generated tokens verify and deliver the same content", [&]() {
    if (v::shrink_exhausted()) return;
    Case c; c.cell = *UNI(0, (int)CELLS.size()); const KA &ka = CELLS[c.cell];
    c.sprov = *UNI(0, 2); c.vprov = *UNI(0, 2); if (gn_unsupported(ka)) c.sprov = c.vprov = 0;
    c.mode = *UNI(0, 32); c.now = *rc::gen::element<long long>(1700000000LL, 0LL, 1LL, 4102444800LL, 1LL << 33); c.iat = *UNI(0, 2); c.nbf_off = *rc::gen::element<long>(0L, 0L, -5L, 30L, 3600L); c.exp_off = *rc::gen::element<long>(0L, 60L, 3600L, -1L, 1L << 31);
    TreeStats ts; J h = gen_json(0, ts, true); int hd = ts.depth; J cl = gen_json(0, ts, true);
    json_object_del(h.p, "alg");   // the library forces alg; a user alg header is C10's business
    if (c.iat) json_object_del(cl.p, "iat"); if (c.nbf_off > 0) json_object_del(cl.p, "nbf"); if (c.exp_off > 0) json_object_del(cl.p, "exp");
    // claims that the default checker would enforce must not make a valid token fail: keep exp/nbf integers sane when user-provided
    for (const char *t : {"exp", "nbf"}) { json_t *v = json_object_get(cl.p, t); if (v) json_object_del(cl.p, t); }
    c.header_json = h.dump(JSON_COMPACT); c.claims_json = cl.dump(JSON_COMPACT);
    bool sh = false; std::string r = run_case(c, &sh);
    st.evaluations++; st.cls(std::string("signer=") + prov_name(c.sprov) + ",verifier=" + prov_name(c.vprov)); st.cls(std::string("alg:") + jwt_alg_str(ka.alg));
    bool nt = sh || ts.depth >= 3 || ts.nonascii || ts.bigint || c.sprov != c.vprov; (void)hd;
    if (nt) { st.nontrivial(fnv(c.token)); if (ts.depth >= 3) st.cls("tree-depth>=3"); if (ts.nonascii) st.cls("tree-non-ascii"); if (ts.bigint) st.cls("tree-int-beyond-2^53"); if (ts.longstr) st.cls("tree-long-string"); if (ts.real) st.cls("tree-real"); if (ts.nul) st.cls("tree-with-U+0000"); if (c.sprov != c.vprov) st.cls("cross-provider"); }
    if (st.want_sample()) st.sample(case_json(c));
    if (!r.empty()) { std::string sig = "C05:" + r; if (st.is_known(sig)) { st.known_hits[sig]++; return; } lastfail = c; lastwhy = r; v::fail_seen()++; RC_FAIL(r); }
  });
  if (!ok && !lastwhy.empty()) st.violation("C05:" + lastwhy, "generated token does not round-trip: " + lastwhy, case_json(lastfail));
  st.extra["key_alg_cells"] = std::to_string(CELLS.size());
  return finish();
}
