// C11 - base64url codec: exhaustive enumeration of small inputs + buffer arithmetic under ASan.
#include "vlib.h"
#include "vkeys.h"
using namespace v;

static int SX[256];       // sextet value or -1 (both alphabets)
static int SXU[256];      // url alphabet only

static std::string case_json(const char *kind, const std::string &bytes) {
  return std::string("{\"kind\":\"") + kind + "\",\"hex\":\"" + hex(bytes) + "\"}";
}

static const char *g_kind = "";
static const unsigned char *g_ptr = nullptr;
static size_t g_len = 0;

static void fail(const char *clause, const char *kind, const std::string &in, const std::string &detail) {
  stats().violation(std::string("C11:") + clause, detail, case_json(kind, in));
}

// ---- decode oracle on one NUL-free string
static bool check_decode(const unsigned char *s, size_t n) {
  g_kind = "dec"; g_ptr = s; g_len = n;
  int len = -12345;
  unsigned char *r = (unsigned char *)jwt_base64uri_decode((const char *)s, &len);
  // model
  bool foreign = false; size_t stop = n;
  for (size_t i = 0; i < n; i++) { if (s[i] == '=') { stop = i; break; } if (SX[s[i]] < 0) { foreign = true; break; } }
  bool ok = true;
  std::string in((const char *)s, n);
  if (foreign) {
    if (r) { fail("foreign-accepted", "dec", in, "byte outside both alphabets ahead of '=' but decode returned data"); ok = false; }
  } else if (n % 4 == 1) {
    if (r) { fail("badlen-accepted", "dec", in, "length 1 mod 4 but decode returned data"); ok = false; }
  } else {
    // lenient model
    unsigned char m[8192 * 3 / 4 + 8]; size_t mn = 0; uint32_t acc = 0; int bits = 0; bool canon_url = (stop == n);
    bool heap = stop * 3 / 4 + 4 > sizeof m; unsigned char *mm = heap ? (unsigned char *)malloc(stop) : m;
    for (size_t i = 0; i < stop; i++) { if (SXU[s[i]] < 0) canon_url = false; acc = (acc << 6) | SX[s[i]]; bits += 6; if (bits >= 8) { bits -= 8; mm[mn++] = (acc >> bits) & 0xff; } }
    if (bits && (acc & ((1u << bits) - 1))) canon_url = false;
    if (canon_url && mn > 0) {
      if (!r || len != (int)mn || memcmp(r, mm, mn)) { fail("canonical-wrong", "dec", in, "canonical unpadded base64url text not decoded to its bytes"); ok = false; }
    } else if (r) {
      if (len <= 0 || len != (int)mn || (size_t)len > 3 * n / 4 || memcmp(r, mm, mn)) { fail("lenient-wrong", "dec", in, "accepted text decoded to bytes other than the sextets before '='"); ok = false; }
    }
    if (heap) free(mm);
  }
  if (r) free(r);
  return ok;
}

static bool check_encode(const unsigned char *p, size_t n) {
  g_kind = "enc"; g_ptr = p; g_len = n;
  std::string in((const char *)p, n);
  char *dst = nullptr;
  int rl = jwt_base64uri_encode(&dst, (const char *)p, (int)n);
  std::string want = b64u_enc(in);
  bool ok = true;
  if (rl < 0 || !dst) { fail("encode-failed", "enc", in, "encode returned error"); return false; }
  if (strlen(dst) != want.size() || want != dst)  /* return value counts the '=' it erased; not part of the statement */ { fail("encode-mismatch", "enc", in, "encoding differs from RFC 4648 s5 unpadded: got '" + std::string(dst) + "' want '" + want + "'"); ok = false; }
  if (ok && n > 0) {
    int len = 0; unsigned char *r = (unsigned char *)jwt_base64uri_decode(dst, &len);
    if (!r || len != (int)n || memcmp(r, p, n)) { fail("roundtrip", "enc", in, "decode(encode(x)) != x"); ok = false; }
    if (r) free(r);
  }
  free(dst);
  return ok;
}

// direct codec entry points with exactly-sized heap buffers (macros of base64.h)
static bool check_direct(const unsigned char *p, size_t n) {
  g_kind = "direct"; g_ptr = p; g_len = n;
  std::string in((const char *)p, n);
  size_t osz = ((n + 2) / 3) * 4 + 1;
  unsigned char *ib = (unsigned char *)malloc(n ? n : 1); memcpy(ib, p, n);
  char *ob = (char *)malloc(osz);
  unsigned int el = base64_encode(ib, (unsigned)n, ob);
  bool ok = true;
  std::string want = b64u_enc(in); for (auto &c : want) { if (c == '-') c = '+'; else if (c == '_') c = '/'; }
  while (want.size() % 4) want += '=';
  if (el != want.size() || memcmp(ob, want.data(), el)) { fail("direct-encode-mismatch", "direct", in, "base64_encode output wrong"); ok = false; }
  if (ok && el) {
    char *eb = (char *)malloc(el); memcpy(eb, ob, el);  // exactly el bytes, no terminator: must not read past inlen
    unsigned char *db = (unsigned char *)malloc((el / 4) * 3);
    unsigned int dl = base64_decode(eb, el, db);
    if (dl != n || memcmp(db, p, n)) { fail("direct-roundtrip", "direct", in, "base64_decode(base64_encode(x)) != x"); ok = false; }
    free(db); free(eb);
  }
  free(ob); free(ib);
  return ok;
}

static bool nontrivial_dec(const unsigned char *s, size_t n) {
  if (n % 4 == 2 || n % 4 == 3) return true;
  for (size_t i = 0; i < n; i++) { int v = SX[s[i]]; if (v < 0 || v >= 62) return true; }
  return false;
}
static bool nontrivial_enc(const unsigned char *p, size_t n) {
  if (n % 3) return true;
  for (size_t i = 0; i + 2 < n; i += 3) { uint32_t v = (p[i] << 16) | (p[i + 1] << 8) | p[i + 2]; for (int k = 0; k < 4; k++) if (((v >> (6 * k)) & 63) >= 62) return true; }
  return false;
}

// ---- (4) the users of the decoder: every base64url-carrying JWK member of every key type, and every token segment.
// "Text that contains ... a byte outside the alphabets, or whose length is 1 modulo 4, is rejected rather than partially decoded":
// a JWK with such a member must come out as an item that reports an error; a token with such a segment must not verify.
static std::string corrupt_text(const std::string &t, int v) {
  std::string r = t; size_t mid = r.size() / 2;
  switch (v) {
  case 0: r.insert(mid, "!"); break;
  case 1: r.insert(0, "*"); break;
  case 2: r += "\xc3\xa9"; break;                                   // two bytes >= 0x80 (valid UTF-8, so the JSON layer lets it through)
  case 3: do r += 'A'; while (r.size() % 4 != 1); break;             // length 1 modulo 4, alphabet characters only
  case 4: if (!r.empty()) r[mid] = ' '; else r = " "; break;
  case 5: r.insert(mid, "."); break;
  case 6: if (!r.empty()) r[r.size() - 1] = ','; else r = ","; break;
  case 7: r.insert(mid, "\n"); break;
  case 9: r += std::string("\0!!$$", 5); break;                     // a NUL byte (JSON \u0000) and junk after text that decodes on its own: nothing may stop reading at the NUL
  case 8: if (r.size() % 4 == 2) r.resize(r.size() - 1); else if (r.size() % 4 == 3) r.resize(r.size() - 2); else if (r.size() % 4 == 0 && r.size()) r.resize(r.size() - 3); break;   // truncated to length 1 modulo 4
  }
  return r;
}
static const int NCORR = 10;
static jwk_set_t *load_via(int how, const std::string &doc, jwk_set_t **owner) {
  *owner = nullptr;
  switch (how) {
  case 0: return *owner = jwks_create(doc.c_str());
  case 1: return *owner = jwks_create_strn(doc.data(), doc.size());
  case 2: { FILE *f = fmemopen((void *)doc.data(), doc.size(), "r"); jwk_set_t *r = jwks_create_fromfp(f); fclose(f); return *owner = r; }
  default: { jwk_set_t *set = jwks_create(NULL); *owner = set; return jwks_load_strn(set, doc.data(), doc.size()); }
  }
}
// "" fine; else the clause
static std::string check_jwk_doc(int prov, int how, const std::string &doc) {
  set_provider(prov); jwk_set_t *owner = nullptr; jwk_set_t *set = load_via(how, doc, &owner);
  std::string r;
  if (!set) r = "load-returned-null";
  else { const jwk_item_t *it = jwks_item_get(set, jwks_item_count(set) ? jwks_item_count(set) - 1 : 0);
    if (!it) { if (!jwks_error(set)) r = "no-item-and-no-error"; }
    else if (!jwks_item_error(it)) r = "accepted"; }
  if (owner) jwks_free(owner);
  return r;
}
// a JWK member that is valid text of ANOTHER length encoding the same number (leading zero octets in front of, or stripped from, one member
// only): every member decodes to the octets it encodes, so the imported key is the same one
static std::string item_pem_of(int prov, int how, const std::string &doc, bool *err) {
  set_provider(prov); jwk_set_t *owner = nullptr; jwk_set_t *set = load_via(how, doc, &owner); std::string pem; *err = true;
  if (set) { const jwk_item_t *it = jwks_item_get(set, jwks_item_count(set) ? jwks_item_count(set) - 1 : 0); if (it) { *err = jwks_item_error(it) != 0; const char *p = jwks_item_pem(it); if (p) pem = p; } }
  if (owner) jwks_free(owner);
  return pem;
}
static std::string check_jwk_equiv(int prov, int how, const std::string &orig, const std::string &doc) {
  bool e0, e1; std::string p0 = item_pem_of(prov, how, orig, &e0), p1 = item_pem_of(prov, how, doc, &e1);
  if (e0 || p0.empty()) return "";   // (the unmodified key must load for the comparison to mean anything)
  if (e1) return "refused";
  return p0 == p1 ? "" : "imported-as-another-key";
}
static std::string check_token_seg(int prov, const KeySpec &k, jwt_alg_t alg, const std::string &tok) {
  set_provider(prov); set_now(1700000000);
  JwkOpts o; o.priv = k.kind == K_OCT; LKey lk(jwk_json(k, o)); if (!lk.ok()) return "";
  jwt_checker_t *ch = jwt_checker_new(); std::string r;
  if (!jwt_checker_setkey(ch, alg, lk.item) && jwt_checker_verify(ch, tok.c_str()) == 0) r = "accepted";
  jwt_checker_free(ch); return r;
}
static void part_users(Stats &st, const Args &a) {
  Pool pool = standard_pool();
  struct KA { const char *key; jwt_alg_t alg; const char *attr; };
  const KA kas[] = {{"oct64", JWT_ALG_HS256, ""}, {"oct48", JWT_ALG_HS384, "HS384"}, {"rsa_2048", JWT_ALG_RS256, ""}, {"rsa_2048", JWT_ALG_PS384, "PS384"}, {"rsa_3072", JWT_ALG_RS512, "RS512"},
                    {"ec_p256", JWT_ALG_ES256, ""}, {"ec_p384", JWT_ALG_ES384, "ES384"}, {"ec_p521", JWT_ALG_ES512, ""}, {"ec_k256", JWT_ALG_ES256K, ""}, {"ed25519", JWT_ALG_EDDSA, ""}, {"ed448", JWT_ALG_EDDSA, "EdDSA"}};
  static const char *MEMB[] = {"k", "n", "e", "d", "p", "q", "dp", "dq", "qi", "x", "y"};
  uint64_t idx = 0;
  for (const KA &ka : kas) {
    const KeySpec &k = pool.get(ka.key);
    for (int priv = 0; priv < 2; priv++) {
      if (k.kind == K_OCT && !priv) continue;
      JwkOpts o; o.priv = priv; o.alg = ka.attr; o.kid = "c11"; J jwk = J::parse(jwk_json(k, o)); if (!jwk) continue;
      for (const char *mn : MEMB) {
        json_t *mv = json_object_get(jwk.p, mn); if (!mv || !json_is_string(mv)) continue;
        std::string orig = json_string_value(mv);
        // a private OKP JWK is built from d alone ("EdDSA only need one or the other"): its x is never decoded, so it is not text the statement speaks about
        if (k.kind == K_OKP && priv && !strcmp(mn, "x")) { st.cls("member-the-library-never-decodes(skipped)"); continue; }
        // numbers (RSA and EC members) written with one or two leading zero octets, or without the ones they had: same key
        if (k.kind == K_RSA || k.kind == K_EC) { std::string raw; if (b64u_dec_strict(orig, raw) && !raw.empty()) {
          std::vector<std::string> alts = {std::string(1, '\0') + raw, std::string(2, '\0') + raw}; { size_t z = 0; while (z + 1 < raw.size() && raw[z] == 0) z++; if (z) alts.push_back(raw.substr(z)); }
          std::string otext = jwk.dump(JSON_COMPACT);
          for (auto &alt : alts) { J doc(json_deep_copy(jwk.p)); std::string enc = b64u_enc(alt); json_object_set_new(doc.p, mn, json_stringn(enc.data(), enc.size())); std::string text = doc.dump(JSON_COMPACT);
            for (int prov = 0; prov < 2; prov++) for (int how = 0; how < 4; how += 3) {
              if ((int)(idx++ % a.nworkers) != a.worker) continue;
              std::string r = check_jwk_equiv(prov, how, otext, text); st.evaluations++; st.cls("jwk-number-member-of-another-length(same-number)"); st.nontrivial(mix(fnv(text), prov * 4 + how + 100));
              if (!r.empty()) { stats().violation(std::string("C11:jwk-member-of-another-length:") + r + ":" + (k.kind == K_RSA ? "RSA" : "EC") + "." + mn + (priv ? ":private" : ":public"),
                  "a JWK whose member encodes the same number with " + std::to_string(alt.size()) + " instead of " + std::to_string(raw.size()) + " octets is " + r, "{\"kind\":\"jwkequiv\",\"prov\":" + std::to_string(prov) + ",\"how\":" + std::to_string(how) + ",\"orig\":" + jstr(otext) + ",\"doc\":" + jstr(text) + "}"); return; }
            } } } }
        for (int v = 0; v < NCORR; v++) {
          std::string bad = corrupt_text(orig, v); if (bad == orig) continue;
          J doc(json_deep_copy(jwk.p)); json_object_set_new(doc.p, mn, json_stringn(bad.data(), bad.size())); std::string text = doc.dump(JSON_COMPACT);
          for (int prov = 0; prov < 2; prov++) for (int how = 0; how < 4; how++) {
            if ((int)(idx++ % a.nworkers) != a.worker) continue;
            std::string r = check_jwk_doc(prov, how, text); st.evaluations++; st.cls("jwk-member-with-invalid-text"); st.nontrivial(mix(fnv(text), prov * 4 + how));
            if (!r.empty()) { stats().violation(std::string("C11:jwk-member-with-invalid-text:") + r + ":" + (k.kind == K_OCT ? "oct" : k.kind == K_RSA ? "RSA" : k.kind == K_EC ? "EC" : "OKP") + "." + mn + (priv ? ":private" : ":public"),
                "a JWK whose member is not valid base64url text is imported without error (variant " + std::to_string(v) + ")", "{\"kind\":\"jwkmember\",\"prov\":" + std::to_string(prov) + ",\"how\":" + std::to_string(how) + ",\"doc\":" + jstr(text) + "}"); return; }
          }
        }
      }
    }
    // token segments
    std::string hdr = std::string("{\"alg\":\"") + jwt_alg_str(ka.alg) + "\",\"typ\":\"JWT\"}";
    std::string good = ref_token(k, ka.alg, hdr, "{\"sub\":\"c11\",\"n\":12345}"); TokParts tp = split_token(good); if (!tp.ok) continue;
    for (int seg = 0; seg < 3; seg++) for (int v = 0; v < NCORR; v++) {
      std::string parts[3] = {tp.h, tp.p, tp.s}; std::string bad = corrupt_text(parts[seg], v); if (bad == parts[seg] || v == 9 /* a token is a C string: no NUL inside */) continue; parts[seg] = bad;
      std::string tok = parts[0] + "." + parts[1] + "." + parts[2];
      for (int prov = 0; prov < 2; prov++) {
        if ((int)(idx++ % a.nworkers) != a.worker) continue;
        std::string r = check_token_seg(prov, k, ka.alg, tok); st.evaluations++; st.cls("token-segment-with-invalid-text"); st.nontrivial(mix(fnv(tok), prov));
        if (!r.empty()) { stats().violation(std::string("C11:token-segment-with-invalid-text-accepted:segment") + std::to_string(seg), "a token one of whose segments is not valid base64url text verifies (variant " + std::to_string(v) + ")",
            "{\"kind\":\"tokseg\",\"prov\":" + std::to_string(prov) + ",\"key\":\"" + ka.key + "\",\"alg\":\"" + jwt_alg_str(ka.alg) + "\",\"token\":" + jstr(tok) + "}"); return; }
      }
    }
  }
}

int main(int argc, char **argv) {
  Args a = parse_args(argc, argv);
  for (int c = 0; c < 256; c++) { SX[c] = sextet((unsigned char)c, true); SXU[c] = sextet((unsigned char)c, false); }
  Stats &st = stats();
  cur_case() = [] { return case_json(g_kind, std::string((const char *)g_ptr, g_len)); };

  if (!a.replay.empty()) {
    J j = J::parse(read_file(a.replay));
    const char *kind = json_string_value(json_object_get(j.p, "kind"));
    const char *hx = json_string_value(json_object_get(j.p, "hex"));
    if (kind && !strcmp(kind, "jwkequiv")) return check_jwk_equiv((int)json_integer_value(json_object_get(j.p, "prov")), (int)json_integer_value(json_object_get(j.p, "how")), json_string_value(json_object_get(j.p, "orig")), json_string_value(json_object_get(j.p, "doc"))).empty() ? 0 : 3;
    if (kind && !strcmp(kind, "jwkmember")) return check_jwk_doc((int)json_integer_value(json_object_get(j.p, "prov")), (int)json_integer_value(json_object_get(j.p, "how")), json_string_value(json_object_get(j.p, "doc"))).empty() ? 0 : 3;
    if (kind && !strcmp(kind, "tokseg")) { Pool pool = standard_pool(); return check_token_seg((int)json_integer_value(json_object_get(j.p, "prov")), pool.get(json_string_value(json_object_get(j.p, "key"))), jwt_str_alg(json_string_value(json_object_get(j.p, "alg"))), from_latin1_utf8(json_string_value(json_object_get(j.p, "token")))).empty() ? 0 : 3; }
    if (!kind || !hx) return 2;
    std::string b = unhex(hx); b.push_back('\0');
    bool ok = true;
    if (!strcmp(kind, "dec")) ok = check_decode((const unsigned char *)b.data(), b.size() - 1);
    else if (!strcmp(kind, "enc")) ok = check_encode((const unsigned char *)b.data(), b.size() - 1);
    else ok = check_direct((const unsigned char *)b.data(), b.size() - 1);
    return ok ? 0 : 3;
  }

  const int W = a.nworkers, w = a.worker;
  // (1) encode / round trip: all byte strings of length 0..3
  {
    unsigned char b[4];
    uint64_t n_all = 0, n_nt = 0;
    if (w == 0) { check_encode(b, 0); n_all++; }
    for (int b0 = 0; b0 < 256; b0++) {
      if (b0 % W != w) continue;
      b[0] = b0; check_encode(b, 1); check_direct(b, 1); n_all++; n_nt++;
      for (int b1 = 0; b1 < 256; b1++) {
        b[1] = b1; check_encode(b, 2); n_all++; n_nt++;
        if (b1 % 16 == 0) check_direct(b, 2);
        for (int b2 = 0; b2 < 256; b2++) { b[2] = b2; check_encode(b, 3); n_all++; if (nontrivial_enc(b, 3)) n_nt++; }
      }
      if (!st.violations.empty()) break;
    }
    st.evaluations += n_all; st.nontrivial_distinct(n_nt); st.cls("enc_len0_3", n_all);
    if (w == 0) { st.sample(case_json("enc", std::string("\xfb\xff", 2))); st.sample(case_json("enc", std::string("\x00\x10\x83", 3))); }
  }
  // (2) decode of all strings of length 1..4 over alphabet Sigma' (quick) or all NUL-free bytes (thorough)
  {
    std::vector<unsigned char> sigma;
    if (a.thorough()) { for (int c = 1; c < 256; c++) sigma.push_back(c); }
    else {
      for (const char *p = "ABCDEFGHIJKLMNOPQRSTUVWXYZabcdefghijklmnopqrstuvwxyz0123456789-_+/=."; *p; p++) sigma.push_back(*p);
      for (unsigned char c : {0x01, 0x20, 0x2a, 0x2c, 0x3a, 0x40, 0x5b, 0x60, 0x7b, 0x7f, 0x80, 0xff}) sigma.push_back(c);
    }
    size_t S = sigma.size();
    unsigned char s[5];
    uint64_t n_all = 0, n_nt = 0;
    for (size_t i0 = 0; i0 < S && st.violations.empty(); i0++) {
      if ((int)(i0 % W) != w) continue;
      s[0] = sigma[i0]; s[1] = 0; check_decode(s, 1); n_all++; n_nt += nontrivial_dec(s, 1);
      for (size_t i1 = 0; i1 < S; i1++) {
        s[1] = sigma[i1]; s[2] = 0; check_decode(s, 2); n_all++; n_nt += nontrivial_dec(s, 2);
        for (size_t i2 = 0; i2 < S; i2++) {
          s[2] = sigma[i2]; s[3] = 0; check_decode(s, 3); n_all++; n_nt += nontrivial_dec(s, 3);
          for (size_t i3 = 0; i3 < S; i3++) { s[3] = sigma[i3]; s[4] = 0; check_decode(s, 4); n_all++; n_nt += nontrivial_dec(s, 4); }
        }
      }
    }
    st.evaluations += n_all; st.nontrivial_distinct(n_nt); st.cls(a.thorough() ? "dec_len1_4_allbytes" : "dec_len1_4_sigma78", n_all);
    st.extra["decode_alphabet_size"] = std::to_string(S);
    if (w == 0) { st.sample(case_json("dec", "QQ=x")); st.sample(case_json("dec", "-_8")); st.sample(case_json("dec", "A.AA")); }
  }
  // (3) buffer arithmetic: every length in a stripe, random content, mutated encodings
  {
    Rng rng(a.seed * 131 + w);
    size_t maxlen = 4096;
    uint64_t n = 0;
    std::vector<size_t> lens;
    for (size_t L = w; L <= maxlen; L += W) lens.push_back(L);
    int extra = a.thorough() ? 400 : 40;
    for (int i = 0; i < extra; i++) lens.push_back(rng.below(65536));
    for (size_t L : lens) {
      if (!st.violations.empty()) break;
      std::string x = rng.bytes(L);
      // heap copy of exact size so ASan sees any over-read
      unsigned char *hb = (unsigned char *)malloc(L ? L : 1); memcpy(hb, x.data(), L);
      check_encode(hb, L); check_direct(hb, L); n += 2; st.nontrivial(mix(L, fnv(x)));
      free(hb);
      // decode of mutated encodings (exact-size NUL-terminated heap strings)
      std::string e = b64u_enc(x);
      for (int k = 0; k < 6 && !e.empty(); k++) {
        std::string m = e;
        switch (k) {
        case 0: m[rng.below(m.size())] = (char)(1 + rng.below(255)); break;
        case 1: m.resize(rng.below(m.size() + 1)); break;
        case 2: m.insert(rng.below(m.size() + 1), 1, '='); break;
        case 3: m += std::string(1 + rng.below(3), '='); break;
        case 4: m.insert(rng.below(m.size() + 1), 1, "+/.-_ \n"[rng.below(7)]); break;
        case 5: for (auto &c : m) { if (c == '-') c = '+'; else if (c == '_') c = '/'; } break;
        }
        m = m.substr(0, m.find('\0'));
        char *hs = (char *)malloc(m.size() + 1); memcpy(hs, m.c_str(), m.size() + 1);
        check_decode((unsigned char *)hs, m.size()); n++; st.nontrivial(mix(k, fnv(m)));
        if (st.want_sample()) st.sample(case_json("dec", m.substr(0, 48)));
        free(hs);
      }
    }
    st.evaluations += n; st.cls("buffers", n);
  }
  if (st.violations.empty()) part_users(st, a);
  return finish();
}
