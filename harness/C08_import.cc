// C08 - JWK import preserves the key and its metadata: generated keys x rendering variations (rapidcheck),
// compared component-wise with the original EVP_PKEY after parsing the item's PEM with OpenSSL.
#include <rapidcheck.h>
#include "vlib.h"
#include "vkeys.h"
using namespace v;
template <typename T> static rc::Gen<T> UNI(T lo, T hi) { return rc::gen::resize(100, rc::gen::inRange<T>(lo, hi)); }

static std::vector<KeySpec> KEYS;   // fixtures + fresh asymmetric keys

struct Rend { int key; int octlen; uint64_t octseed; bool priv; int pad; bool strip; int algk; int kidk; int usek; int opsk; bool okp_x; int foreignk; bool in_set; };
static const char *ALGSTR[] = {"", "RS256", "RS384", "RS512", "PS256", "PS384", "PS512", "ES256", "ES384", "ES512", "ES256K", "EdDSA", "HS256", "HS384", "HS512", "none", "XX999", "ps256", "Pxyz", "rs256"};
static const int NALGSTR = 20;
static const char *KIDS[] = {"", "k1", "a-much-longer-key-identifier-0123456789-0123456789-0123456789-0123456789-0123456789-0123456789-0123456789", "cl\xc3\xa9-\xe2\x82\xac-\xf0\x9f\x94\x91", "kid with spaces/and+symbols=", "0", "tenant%2Fsigning%2F2024", "a%%b-100%", "%d-%x-%5c-%%"};   // (the last three: percent signs, as in percent-encoded paths)
static const char *USES[] = {"", "sig", "enc", "other", "SIG"};
static const char *OPS[] = {"", "[]", "[\"sign\"]", "[\"verify\"]", "[\"sign\",\"verify\"]", "[\"encrypt\",\"decrypt\",\"wrapKey\",\"unwrapKey\",\"deriveKey\",\"deriveBits\"]", "[\"sign\",\"frobnicate\",7,null,\"verify\"]", "[\"Sign\"]", "\"sign\"", "[\"sign\",\"sign\"]"};
static const int OPSV[] = {0, 0, 1, 2, 3, 0xfc, 3, 0, 0, 1};
static const char *FOREIGN[] = {"", "\"foo\":1", "\"n\":\"AQAB\",\"e\":\"AQAB\"", "\"k\":\"c2VjcmV0c2VjcmV0c2VjcmV0c2VjcmV0\"", "\"crv\":\"P-999\",\"x5c\":[\"MIIB\"],\"x5t\":\"abc\"", "\"d2\":{\"a\":[1,2,3]},\"\\u00e9\":null", "\"ext\":true,\"oth\":[{\"r\":\"AQ\",\"d\":\"AQ\",\"t\":\"AQ\"}]", "\"y\":\"AAAA\",\"dp\":5"};
static const int NFOREIGN = 8;

static std::string member_conflict(const KeySpec &k, const std::string &f) {
  // foreign members must not belong to the key type: drop candidates that name a member the kty uses
  std::vector<std::string> own = k.kind == K_RSA ? std::vector<std::string>{"n", "e", "d", "p", "q", "dp", "dq", "qi"} : k.kind == K_EC ? std::vector<std::string>{"crv", "x", "y", "d"} : k.kind == K_OKP ? std::vector<std::string>{"crv", "x", "d"} : std::vector<std::string>{"k"};
  for (auto &m : own) if (f.find("\"" + m + "\":") != std::string::npos) return m;
  return "";
}

struct Expect { jwk_key_type_t kty; int bits; std::string curve; bool has_curve; int priv; jwt_alg_t alg; std::string kid; bool has_kid; jwk_pub_key_use_t use; int ops; };

static KeySpec CURKEY; static Rend CURR; static std::string CURDOC;
static std::string rend_json(const Rend &r, const std::string &doc) {
  return "{\"key\":" + std::to_string(r.key) + ",\"octlen\":" + std::to_string(r.octlen) + ",\"octseed\":" + std::to_string(r.octseed) + ",\"priv\":" + (r.priv ? "1" : "0") + ",\"pad\":" + std::to_string(r.pad) + ",\"strip\":" + (r.strip ? "1" : "0") + ",\"algk\":" + std::to_string(r.algk) + ",\"kidk\":" + std::to_string(r.kidk) + ",\"usek\":" + std::to_string(r.usek) + ",\"opsk\":" + std::to_string(r.opsk) + ",\"okp_x\":" + (r.okp_x ? "1" : "0") + ",\"foreignk\":" + std::to_string(r.foreignk) + ",\"in_set\":" + (r.in_set ? "1" : "0") + ",\"orig_pem\":" + jstr(CURKEY.pkey ? pkey_to_pem(CURKEY.pkey, true) : std::string()) + ",\"jwk\":" + jstr(doc) + "}";
}

static std::string raw_okp(EVP_PKEY *k, bool priv) { unsigned char b[64]; size_t l = sizeof b; if (priv ? EVP_PKEY_get_raw_private_key(k, b, &l) : EVP_PKEY_get_raw_public_key(k, b, &l)) return std::string((char *)b, l); return ""; }

static std::string compare_keys(const KeySpec &orig, EVP_PKEY *imp, bool priv, bool swapped = false) {
  if (orig.kind == K_RSA && swapped && priv) {   // the JWK wrote the primes in the other order: the PEM must hold exactly what the JWK said
    for (auto n : {OSSL_PKEY_PARAM_RSA_N, OSSL_PKEY_PARAM_RSA_E, OSSL_PKEY_PARAM_RSA_D}) if (pkey_bn(orig.pkey, n) != pkey_bn(imp, n)) return std::string("rsa-component-differs:") + n;
    if (pkey_bn(imp, OSSL_PKEY_PARAM_RSA_FACTOR1) != pkey_bn(orig.pkey, OSSL_PKEY_PARAM_RSA_FACTOR2) || pkey_bn(imp, OSSL_PKEY_PARAM_RSA_FACTOR2) != pkey_bn(orig.pkey, OSSL_PKEY_PARAM_RSA_FACTOR1)) return "rsa-private-component-differs:p/q(written-with-p<q)";
    if (pkey_bn(imp, OSSL_PKEY_PARAM_RSA_EXPONENT1) != pkey_bn(orig.pkey, OSSL_PKEY_PARAM_RSA_EXPONENT2) || pkey_bn(imp, OSSL_PKEY_PARAM_RSA_EXPONENT2) != pkey_bn(orig.pkey, OSSL_PKEY_PARAM_RSA_EXPONENT1)) return "rsa-private-component-differs:dp/dq(written-with-p<q)";
    if (pkey_bn(imp, OSSL_PKEY_PARAM_RSA_COEFFICIENT1) != rsa_swapped_qi(orig.pkey)) return "rsa-private-component-differs:qi(written-with-p<q)";
    return "";
  }
  if (orig.kind == K_RSA) {
    const char *pub[] = {OSSL_PKEY_PARAM_RSA_N, OSSL_PKEY_PARAM_RSA_E}; const char *prv[] = {OSSL_PKEY_PARAM_RSA_D, OSSL_PKEY_PARAM_RSA_FACTOR1, OSSL_PKEY_PARAM_RSA_FACTOR2, OSSL_PKEY_PARAM_RSA_EXPONENT1, OSSL_PKEY_PARAM_RSA_EXPONENT2, OSSL_PKEY_PARAM_RSA_COEFFICIENT1};
    for (auto n : pub) if (pkey_bn(orig.pkey, n) != pkey_bn(imp, n) || pkey_bn(imp, n).empty()) return std::string("rsa-public-component-differs:") + n;
    if (priv) for (auto n : prv) if (pkey_bn(orig.pkey, n) != pkey_bn(imp, n) || pkey_bn(imp, n).empty()) return std::string("rsa-private-component-differs:") + n;
  } else if (orig.kind == K_EC) {
    int w = (orig.bits + 7) / 8;
    if (pkey_bn(orig.pkey, OSSL_PKEY_PARAM_EC_PUB_X, w) != pkey_bn(imp, OSSL_PKEY_PARAM_EC_PUB_X, w)) return "ec-x-differs";
    if (pkey_bn(orig.pkey, OSSL_PKEY_PARAM_EC_PUB_Y, w) != pkey_bn(imp, OSSL_PKEY_PARAM_EC_PUB_Y, w)) return "ec-y-differs";
    if (priv && pkey_bn(orig.pkey, OSSL_PKEY_PARAM_PRIV_KEY, w) != pkey_bn(imp, OSSL_PKEY_PARAM_PRIV_KEY, w)) return "ec-d-differs";
    KeySpec t; t.pkey = imp; fill_spec_from_pkey(t); if (t.crv != orig.crv) return "ec-curve-differs";
  } else if (orig.kind == K_OKP) {
    if (EVP_PKEY_base_id(orig.pkey) != EVP_PKEY_base_id(imp)) return "okp-type-differs";
    if (raw_okp(orig.pkey, false) != raw_okp(imp, false)) return "okp-public-differs";
    if (priv && raw_okp(orig.pkey, true) != raw_okp(imp, true)) return "okp-private-differs";
  }
  if (EVP_PKEY_base_id(orig.pkey) == EVP_PKEY_base_id(imp) && EVP_PKEY_eq(orig.pkey, imp) != 1) return "EVP_PKEY_eq-says-different";
  return "";
}

struct Imported { bool ok = false; std::string err, pem, oct; int kty = 0, bits = 0, priv = 0, alg = 0, use = 0, ops = 0; std::string curve, kid; bool has_curve = false, has_kid = false; };
static Imported import_doc(const std::string &doc, bool in_set) {
  // in a set the key comes last, after a good EC key and an EC key whose point is not on the curve (what was imported before must not matter);
  // the import starts with an unrelated entry on OpenSSL's error queue (an application that uses OpenSSL elsewhere)
  static const std::string NEIGHBOURS = [] { KeySpec ec = load_fixture("ec_p256"); JwkOpts o; o.priv = false; o.kid = "neighbour"; return jwk_json(ec, o) + ",{\"kty\":\"EC\",\"crv\":\"P-256\",\"x\":\"" + b64u_enc(std::string(32, '\1')) + "\",\"y\":\"" + b64u_enc(std::string(32, '\2')) + "\"},"; }();
  Imported r; std::string d = in_set ? "{\"keys\":[" + NEIGHBOURS + doc + "]}" : doc;
  pollute_openssl_error_queue();
  jwk_set_t *s = jwks_create_strn(d.data(), d.size());
  size_t want = in_set ? 3 : 1;
  if (!s || jwks_error(s) || jwks_item_count(s) != want) { r.err = "set-error-or-count"; if (s) jwks_free(s); return r; }
  const jwk_item_t *it = jwks_item_get(s, want - 1);
  if (jwks_item_error(it)) { r.err = std::string("item-error:") + jwks_item_error_msg(it); jwks_free(s); return r; }
  r.ok = true; r.kty = jwks_item_kty(it); r.bits = jwks_item_key_bits(it); r.priv = jwks_item_is_private(it); r.alg = jwks_item_alg(it); r.use = jwks_item_use(it); r.ops = jwks_item_key_ops(it);
  const char *c = jwks_item_curve(it); r.has_curve = c != nullptr; if (c) r.curve = c; const char *k = jwks_item_kid(it); r.has_kid = k != nullptr; if (k) r.kid = k;
  const char *pem = jwks_item_pem(it); if (pem) r.pem = pem;
  const unsigned char *ob; size_t ol; if (!jwks_item_key_oct(it, &ob, &ol)) r.oct.assign((const char *)ob, ol);
  jwks_free(s); return r;
}

static std::string run_case(const KeySpec &k, const Rend &r, bool *nt = nullptr) {
  CURKEY = k; CURR = r;
  JwkOpts o; o.priv = r.priv; o.alg = ALGSTR[r.algk % NALGSTR]; o.kid = KIDS[r.kidk % 9]; o.use = USES[r.usek % 5]; o.key_ops = OPS[r.opsk % 10];
  o.pad = (k.kind == K_OKP || k.kind == K_OCT) ? 0 : r.pad; o.strip = k.kind == K_EC && r.strip; o.okp_priv_with_x = r.okp_x;
  // the two rendering bits that only EC / OKP keys use mean something else for the other types: RSA primes written with p < q; members with '=' padding
  o.swap_pq = k.kind == K_RSA && r.priv && r.strip; o.eq_pad = k.kind != K_OKP && !r.okp_x;
  std::string base = jwk_json(k, o);
  std::string foreign = FOREIGN[r.foreignk % NFOREIGN];
  // remove foreign members that the key type owns (statement: members that do not belong to the key type)
  if (!foreign.empty() && !member_conflict(k, foreign).empty()) foreign = "\"zz\":[1,{\"q\":null}]";
  o.extra = foreign; std::string doc = jwk_json(k, o); CURDOC = doc;
  if (nt) *nt = o.pad > 0 || o.strip || o.swap_pq || o.eq_pad || !foreign.empty() || (r.priv && k.kind != K_OCT);
  Imported im = import_doc(doc, r.in_set);
  if (!im.ok) return "well-formed-jwk-rejected:" + im.err.substr(0, 60);
  // expected metadata (independent mapping)
  int kty = k.kind == K_EC ? JWK_KEY_TYPE_EC : k.kind == K_RSA ? JWK_KEY_TYPE_RSA : k.kind == K_OKP ? JWK_KEY_TYPE_OKP : JWK_KEY_TYPE_OCT;
  if (im.kty != kty) return "kty-differs";
  if (im.bits != k.bits) return "key-bits-differ:got" + std::to_string(im.bits) + "-want" + std::to_string(k.bits);
  if (k.kind == K_EC || k.kind == K_OKP) { if (!im.has_curve || im.curve != k.crv) return "curve-differs"; } else if (im.has_curve) return "curve-reported-for-key-without-curve";
  if (im.priv != ((r.priv || k.kind == K_OCT) ? 1 : 0)) return "is-private-differs";
  std::string as = o.alg; jwt_alg_t want_alg = as.empty() ? JWT_ALG_NONE : alg_by_name(as) ? alg_by_name(as)->alg : as == "none" ? JWT_ALG_NONE : JWT_ALG_INVAL;
  if (im.alg != (int)want_alg) return "alg-differs:jwk=" + as;
  if (o.kid.empty() ? im.has_kid : (!im.has_kid || im.kid != o.kid)) return "kid-differs";
  int want_use = o.use == "sig" ? JWK_PUB_KEY_USE_SIG : o.use == "enc" ? JWK_PUB_KEY_USE_ENC : JWK_PUB_KEY_USE_NONE;
  if (im.use != want_use) return "use-differs";
  if (im.ops != OPSV[r.opsk % 10]) return "key-ops-differ";
  if (k.kind == K_OCT) { if (im.oct != k.oct) return "oct-bytes-differ"; }
  else {
    if (im.pem.empty()) return "no-pem";
    EVP_PKEY *imp = pem_to_pkey(im.pem, r.priv); if (!imp) return "pem-does-not-parse";
    std::string c = compare_keys(k, imp, r.priv, o.swap_pq); EVP_PKEY_free(imp); if (!c.empty()) return c;
  }
  // metamorphic: foreign members never change the imported key
  if (!foreign.empty()) {
    Imported b = import_doc(base, r.in_set);
    if (!b.ok) return "base-jwk-rejected";
    if (b.pem != im.pem || b.oct != im.oct || b.bits != im.bits || b.alg != im.alg || b.kid != im.kid || b.use != im.use || b.ops != im.ops || b.curve != im.curve || b.priv != im.priv || b.kty != im.kty) return "foreign-members-change-the-import";
  }
  return "";
}

int main(int argc, char **argv) {
  Args a = parse_args(argc, argv);
  for (const char *n : {"rsa_2048", "rsa_3072", "rsa_4096", "rsa_2048b", "ec_p256", "ec_p384", "ec_p521", "ec_k256", "ed25519", "ed448", "rsa_2050", "rsa_2056",
                        // integers that are ONE octet long: public exponents 3 and 17 (and 257: two octets), an EC private scalar of 5 (one octet once its leading zeros are stripped)
                        "rsa_2048_e3", "rsa_2048_e17", "rsa_3072_e257", "ec_p256_d5"}) KEYS.push_back(load_fixture(n));
  size_t nfix = KEYS.size();
  cur_case() = [] { return rend_json(CURR, CURDOC); };
  Stats &st = stats();
  if (!a.replay.empty()) {
    J j = J::parse(read_file(a.replay)); if (!j) return 2;
    auto gi = [&](const char *k) { return (long long)json_integer_value(json_object_get(j.p, k)); };
    Rend r{(int)gi("key"), (int)gi("octlen"), (uint64_t)gi("octseed"), gi("priv") != 0, (int)gi("pad"), gi("strip") != 0, (int)gi("algk"), (int)gi("kidk"), (int)gi("usek"), (int)gi("opsk"), gi("okp_x") != 0, (int)gi("foreignk"), gi("in_set") != 0};
    // fresh keys cannot be regenerated: fall back to the fixture of the same index modulo, the rendering is what matters
    KeySpec k; const char *op = json_string_value(json_object_get(j.p, "orig_pem"));
    if (r.key < 0) k = oct_key("oct-replay", r.octlen, r.octseed);
    else if (op && *op) { k.name = "replayed"; k.pkey = pem_to_pkey(op, true); if (!k.pkey || !fill_spec_from_pkey(k)) return 2; }   // the very key of the failing run
    else k = KEYS[r.key % nfix];
    std::string res = run_case(k, r); if (!res.empty()) fprintf(stderr, "replay: %s\n", res.c_str());
    return res.empty() ? 0 : 3;
  }
  // fresh keys (fast types always; RSA only in thorough)
  int nfresh = a.thorough() ? 40 : 6;
  for (int i = 0; i < nfresh; i++) for (const char *w : {"P-256", "P-384", "P-521", "secp256k1", "ed25519", "ed448"}) KEYS.push_back(gen_key(w));
  if (a.thorough()) for (const char *w : {"rsa2048", "rsa2560", "rsa3072"}) KEYS.push_back(gen_key(w));
  uint64_t n = a.thorough() ? 40000 : 700;
  std::string params = "seed=" + std::to_string(a.seed * 1000 + a.worker) + " max_success=" + std::to_string(n) + " max_size=100";
  setenv("RC_PARAMS", params.c_str(), 1);
  Rend lastr{}; std::string lastwhy, lastdoc; KeySpec lastk;
  bool ok = rc::check("C08: JWK import preserves key and metadata", [&]() {
    if (v::shrink_exhausted()) return;
    Rend r; r.key = *rc::gen::weightedElement<int>({{1, -1}, {4, 0}}) < 0 ? -1 : *UNI(0, (int)KEYS.size());
    r.octlen = *rc::gen::weightedElement<int>({{3, 0}, {1, 1}}) ? *rc::gen::element(1, 2, 3, 16, 31, 32, 33, 48, 64, 65, 128, 511, 512) : *UNI(1, 513); r.octseed = *UNI<uint64_t>(0, 1ULL << 40);
    r.priv = *UNI(0, 2); r.pad = *rc::gen::weightedElement<int>({{3, 0}, {1, 1}, {1, 2}, {1, 3}}); r.strip = *UNI(0, 3) == 0; r.algk = *rc::gen::weightedElement<int>({{2, 0}, {3, 1}}) ? *UNI(0, NALGSTR) : 0;
    r.kidk = *UNI(0, 9); r.usek = *UNI(0, 5); r.opsk = *UNI(0, 10); r.okp_x = *UNI(0, 2); r.foreignk = *rc::gen::weightedElement<int>({{1, 0}, {2, 1}}) ? *UNI(1, NFOREIGN) : 0; r.in_set = *UNI(0, 2);
    KeySpec k = r.key < 0 ? oct_key("oct-gen", r.octlen, r.octseed) : KEYS[r.key];
    bool nt = false; std::string res = run_case(k, r, &nt);
    st.evaluations++; st.cls(k.kind == K_OCT ? std::string("oct") : k.kind == K_RSA ? std::string("RSA") : k.kind == K_EC ? "EC:" + k.crv : "OKP:" + k.crv);
    if (nt) { uint64_t fp = fnv(CURDOC); st.nontrivial(fp); if (r.pad && k.kind != K_OKP && k.kind != K_OCT) st.cls("zero-padded-integers"); if (r.strip && k.kind == K_EC) st.cls("stripped-ec-coordinates"); if (r.foreignk) st.cls("foreign-members"); if (r.priv) st.cls("private-form"); }
    if (st.want_sample()) st.sample(rend_json(r, CURDOC.substr(0, 400)));
    if (!res.empty()) { std::string sig = "C08:" + res; if (st.is_known(sig)) { st.known_hits[sig]++; return; } lastr = r; lastwhy = res; lastdoc = CURDOC; v::fail_seen()++; RC_FAIL(res); }
  });
  if (!ok && !lastwhy.empty()) st.violation("C08:" + lastwhy, "imported item differs from the key/metadata the JWK states: " + lastwhy, rend_json(lastr, lastdoc));
  st.extra["keys_in_pool"] = std::to_string(KEYS.size());
  return finish();
}
