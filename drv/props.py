"""Property registry + generic runners (rapidcheck/enumerator harnesses, libFuzzer targets)."""
import glob, json, os, shutil, subprocess, sys, time, hashlib, re
import importlib

ck = sys.modules.get("__main__")
if not hasattr(ck, "build_harness"):
    import check as ck  # when imported from a tool other than check.py

VERIF, OUT = ck.VERIF, ck.OUT
log = ck.log


class Ctx:
    def __init__(self, pid, tier, seed):
        self.pid, self.tier, self.seed = pid, tier, seed
        self.t0 = time.time()
        self.known, self.fixed = ck.load_known()
        self.printed_known = set()
        self.violations = []      # (sig, replay_path)
        self.known_hits = {}

    def wall(self):
        return time.time() - self.t0


CHECKS = {}


def check(pid):
    def deco(fn):
        CHECKS[pid] = fn
        return fn
    return deco


# ---------------------------------------------------------------------------

def handle_violation(ctx, sig, what, replay, confirm=None):
    """Classify one violation: known finding, or confirmed VIOLATION (replayed 3x when confirm given)."""
    e = ck.known_match(ctx.known, ctx.pid, sig)
    if e:
        ctx.known_hits[sig] = ctx.known_hits.get(sig, 0) + 1
        if sig not in ctx.printed_known:
            ctx.printed_known.add(sig)
            print(f"KNOWN-FINDING: property={ctx.pid} {e['what']}", flush=True)
        return "known"
    if any(s == sig for s, _ in ctx.violations):
        return "dup"
    replay = dict(replay or {})
    replay.setdefault("property", ctx.pid)
    replay["signature"] = sig
    replay["what"] = what
    path = ck.save_replay(ctx.pid, sig, replay)
    if confirm is not None:
        oks = 0
        for i in range(3):
            if confirm(path):
                oks += 1
        if oks < 3:
            log(f"flaky-inconclusive: {sig} reproduced {oks}/3 - not reported ({path})")
            ctx.flaky = getattr(ctx, "flaky", 0) + 1
            return "flaky"
    ctx.violations.append((sig, path))
    print(f"VIOLATION property={ctx.pid} replay={path}", flush=True)
    print(f"  signature: {sig}\n  what: " + " | ".join(str(what).split("\n"))[:400], flush=True)
    return "violation"


def harness_replay_fn(exe, pid, extra_args=(), env_extra=None):
    def fn(path):
        env = dict(os.environ); env.update(ck.SAN_ENV)
        if env_extra:
            env.update(env_extra)
        os.makedirs(OUT, exist_ok=True)
        outp = os.path.join(OUT, f"replay-{pid}-{os.getpid()}.json")
        r = subprocess.run([exe, "--replay", path, "--out", outp, "--tier", "quick", "--seed", "1",
                            "--worker", "0", "--nworkers", "1", "--known", "/dev/null"] + list(extra_args),
                           env=env, stdout=subprocess.PIPE, stderr=subprocess.PIPE, text=True, errors="replace", timeout=600)
        try:
            os.unlink(outp)
        except OSError:
            pass
        return r.returncode != 0
    return fn


def collect_harness(ctx, results, exe, extra_args=(), env_extra=None):
    """Turn harness worker results into violations (self-reported + sanitizer deaths)."""
    confirm = harness_replay_fn(exe, ctx.pid, extra_args, env_extra)
    for r in results:
        st = r["stats"] or {}
        for v in st.get("violations", []):
            handle_violation(ctx, v["signature"], v.get("what", ""), v.get("replay"), confirm)
        if r["rc"] not in (0, 3) and not r["timed_out"]:
            cur = None
            curp = r["out"] + ".cur"
            if os.path.exists(curp):
                try:
                    cur = json.load(open(curp))
                except Exception:
                    cur = {"raw": open(curp, errors="replace").read()[:20000]}
            sig = ck.san_signature(ctx.pid, r["stderr"])
            if cur is None:
                # harness died without a current case: the check itself is broken
                log("harness died without case context, rc=", r["rc"], "\n", r["stderr"][-3000:])
                ctx.broken = True
                continue
            cur = dict(cur) if isinstance(cur, dict) else {"case": cur}
            cur["stderr_tail"] = r["stderr"][-4000:]
            handle_violation(ctx, sig, "sanitizer/crash: " + sig, cur, confirm)


def run_replay_tier(ctx, exe, extra_args=(), env_extra=None):
    """Saved regression inputs (/verif/replays/<pid>/*.json): each must pass on a correct tree."""
    n = 0
    fn = harness_replay_fn(exe, ctx.pid, extra_args, env_extra)
    for p in sorted(glob.glob(os.path.join(VERIF, "replays", ctx.pid, "*.json"))):
        n += 1
        if fn(p):
            try:
                rp = json.load(open(p))
            except Exception:
                rp = {}
            sig = rp.get("signature", f"{ctx.pid}:replay:{os.path.basename(p)}")
            e = ck.known_match(ctx.known, ctx.pid, sig)
            if e:
                handle_violation(ctx, sig, rp.get("what", ""), rp, None)
            elif fn(p) and fn(p):
                ctx.violations.append((sig, p))
                print(f"VIOLATION property={ctx.pid} replay={p}", flush=True)
                print(f"  signature: {sig} (saved regression input fails again)", flush=True)
    return n


def finish(ctx, level, coverage, assumptions, min_nontrivial=2):
    coverage.setdefault("known_finding_hits", ctx.known_hits)
    ck.write_evidence(ctx.pid, ctx.tier, ctx.seed, level, coverage, assumptions, ctx.wall(), len(ctx.violations))
    if getattr(ctx, "broken", False):
        log("check broken (harness died outside a case)")
        return 2
    if ctx.violations:
        return 1
    if coverage.get("distinct_nontrivial", 0) < min_nontrivial:
        log(f"generator health: only {coverage.get('distinct_nontrivial')} distinct non-trivial cases (< {min_nontrivial})")
        return 2
    print(f"OK property={ctx.pid} tier={ctx.tier} evaluations={coverage.get('evaluations')} "
          f"distinct_nontrivial={coverage.get('distinct_nontrivial')} wall={ctx.wall():.1f}s", flush=True)
    return 0


def generic_harness_check(ctx, name, rule, assumptions, level="exploration", workers=None, extra_link="-lrapidcheck",
                          extra_args=(), min_nontrivial=None, timeout=None, exhaustive=None, env_extra=None, distinct="fps",
                          post=None):
    exe = ck.build_harness(name, "asan", extra_link=extra_link)
    nrep = run_replay_tier(ctx, exe, extra_args, env_extra)
    workers = workers or ck.NCPU
    results, wd = ck.run_workers(exe, ctx.pid, ctx.tier, ctx.seed, workers, extra_args, env_extra=env_extra, timeout=timeout,
                                 known=ctx.known)
    collect_harness(ctx, results, exe, extra_args, env_extra)
    m = ck.merge_stats(results)
    for k, v in m["known_hits"].items():
        e = ck.known_match(ctx.known, ctx.pid, k)
        if e:
            ctx.known_hits[k] = ctx.known_hits.get(k, 0) + v
            if k not in ctx.printed_known:
                ctx.printed_known.add(k)
                print(f"KNOWN-FINDING: property={ctx.pid} {e['what']}", flush=True)
    dn = len(m["fps"]) + m["distinct_by_construction"]
    timed_out = any(r["timed_out"] for r in results)
    if not m["samples"]:
        for v in m["violations"][:2]:
            if v.get("replay"):
                m["samples"].append(v["replay"])
    cov = {"evaluations": m["evaluations"], "distinct_nontrivial": dn, "nontrivial_evaluations": m["nontrivial_total"],
           "rule": rule, "samples": m["samples"][:10], "classes": m["classes"], "workers": workers,
           "replay_tier_inputs": nrep, "inconclusive_timeout": timed_out}
    cov.update(m["extra"])
    if exhaustive is not None:
        cov["exhaustive"] = bool(exhaustive) and not timed_out and not ctx.violations
    if post:
        post(ctx, m, cov)
    if not getattr(ctx, "keep_out", False) and not ctx.violations and not getattr(ctx, "broken", False):
        shutil.rmtree(wd, ignore_errors=True)
    mn = (min_nontrivial or {}).get(ctx.tier, 2) if isinstance(min_nontrivial, dict) else (min_nontrivial or 2)
    return cov, mn


# ---------------------------------------------------------------------------
# libFuzzer campaigns

def run_fuzz(ctx, target, corpus_dirs, seconds, workers, max_len=4096, extra_env=None, runs=None, dict_file=None,
             known_excl=None):
    """Run `workers` independent libFuzzer processes. Returns (artifacts, merged target stats, n_execs)."""
    exe = ck.build_harness(target, "fuzz", src=os.path.join(VERIF, "fuzz", target + ".cc"))
    os.makedirs(OUT, exist_ok=True)
    import tempfile
    wd = tempfile.mkdtemp(prefix=f"{ctx.pid}-{target}-", dir=OUT)
    procs = []
    env = dict(os.environ); env.update(ck.SAN_ENV)
    env["ASAN_OPTIONS"] = env["ASAN_OPTIONS"].replace("detect_leaks=0", "detect_leaks=1")
    if extra_env:
        env.update(extra_env)
    for w in range(workers):
        cdir = os.path.join(wd, f"corpus{w}")
        os.makedirs(cdir)
        for cd in corpus_dirs:
            for f in glob.glob(os.path.join(cd, "*")):
                if os.path.isfile(f):
                    shutil.copy(f, cdir)
        adir = os.path.join(wd, f"art{w}") + "/"
        os.makedirs(adir)
        e = dict(env)
        e["VERIF_FUZZ_STATS"] = os.path.join(wd, f"stats{w}.json")
        cmd = [exe, cdir, f"-seed={ctx.seed * 1000 + w + 1}", f"-artifact_prefix={adir}", f"-max_len={max_len}",
               "-print_final_stats=1", "-timeout=25", "-rss_limit_mb=3000", "-use_value_profile=1", "-close_fd_mask=0"]
        if runs:
            cmd.append(f"-runs={runs}")
        cmd.append(f"-max_total_time={seconds}")
        if dict_file:
            cmd.append(f"-dict={dict_file}")
        p = subprocess.Popen(cmd, stdout=subprocess.DEVNULL, stderr=open(os.path.join(wd, f"log{w}.txt"), "w"), env=e, cwd=wd)
        procs.append(p)
    for p in procs:
        try:
            p.wait(timeout=seconds + 120)
        except subprocess.TimeoutExpired:
            p.kill(); p.wait()
    arts, execs = [], 0
    stats = {"classes": {}, "samples": [], "evaluations": 0, "nontrivial": 0, "fps": set()}
    for w in range(workers):
        lg = open(os.path.join(wd, f"log{w}.txt"), errors="replace").read()
        mm = re.search(r"stat::number_of_executed_units:\s*(\d+)", lg)
        if mm:
            execs += int(mm.group(1))
        else:
            mm = re.findall(r"#(\d+)\s", lg)
            if mm:
                execs += int(mm[-1])
        for f in glob.glob(os.path.join(wd, f"art{w}", "*")):
            b = os.path.basename(f)
            if b.startswith("crash-") or b.startswith("leak-"):
                arts.append((f, lg))
        sp = os.path.join(wd, f"stats{w}.json")
        if os.path.exists(sp):
            try:
                st = json.load(open(sp))
                for k, v in st.get("classes", {}).items():
                    stats["classes"][k] = stats["classes"].get(k, 0) + v
                stats["evaluations"] += st.get("evaluations", 0)
                stats["nontrivial"] += st.get("nontrivial", 0)
                stats["samples"].extend(st.get("samples", [])[:2])
                fpf = sp + ".fp"
                if os.path.exists(fpf):
                    import struct
                    data = open(fpf, "rb").read()
                    stats["fps"].update(struct.unpack(f"<{len(data)//8}Q", data[:len(data)//8*8]))
            except Exception as ex:
                log("bad fuzz stats", sp, ex)
    return exe, wd, arts, stats, execs


def fuzz_replay_fn(exe, extra_env=None):
    def fn(path):
        env = dict(os.environ); env.update(ck.SAN_ENV)
        env["ASAN_OPTIONS"] = env["ASAN_OPTIONS"].replace("detect_leaks=0", "detect_leaks=1")
        if extra_env:
            env.update(extra_env)
        r = subprocess.run([exe, path], env=env, stdout=subprocess.PIPE, stderr=subprocess.PIPE, text=True, errors="replace", timeout=300)
        fn.last_stderr = r.stderr
        return r.returncode != 0
    fn.last_stderr = ""
    return fn


def collect_fuzz(ctx, exe, arts, extra_env=None):
    fn = fuzz_replay_fn(exe, extra_env)
    for path, lg in arts:
        # replay to get a clean report for the signature
        bad = fn(path)
        rep = fn.last_stderr if bad else lg
        sig = ck.san_signature(ctx.pid, rep)
        m = re.search(r"VERIF-ORACLE: (\S+)", rep)
        if m:
            sig = f"{ctx.pid}:oracle:{m.group(1)}"
        d = os.path.join(OUT, "replay", ctx.pid)
        os.makedirs(d, exist_ok=True)
        keep = os.path.join(d, os.path.basename(path))
        shutil.copy(path, keep)
        e = ck.known_match(ctx.known, ctx.pid, sig)
        if e:
            handle_violation(ctx, sig, "", None, None)
            continue
        if any(s == sig for s, _ in ctx.violations):
            continue
        oks = sum(1 for _ in range(3) if fn(keep))
        if oks < 3:
            log(f"flaky fuzz artifact {keep}: {oks}/3")
            continue
        ctx.violations.append((sig, keep))
        print(f"VIOLATION property={ctx.pid} replay={keep}", flush=True)
        print(f"  signature: {sig}", flush=True)


def run_fuzz_replays(ctx, exe, target, extra_env=None):
    """Saved fuzz regression inputs under /verif/replays/<pid>/<target>/ must pass."""
    fn = fuzz_replay_fn(exe, extra_env)
    n = 0
    for p in sorted(glob.glob(os.path.join(VERIF, "replays", ctx.pid, target, "*"))):
        n += 1
        if fn(p):
            sig = ck.san_signature(ctx.pid, fn.last_stderr)
            m = re.search(r"VERIF-ORACLE: (\S+)", fn.last_stderr)
            if m:
                sig = f"{ctx.pid}:oracle:{m.group(1)}"
            if ck.known_match(ctx.known, ctx.pid, sig):
                handle_violation(ctx, sig, "", None, None)
            elif fn(p) and fn(p):
                ctx.violations.append((sig, p))
                print(f"VIOLATION property={ctx.pid} replay={p}", flush=True)
                print(f"  signature: {sig} (saved regression input fails again)", flush=True)
    return n


# ---------------------------------------------------------------------------

def run_check(ctx):
    return CHECKS[ctx.pid](ctx)


def replay(ctx, path):
    mod = importlib.import_module("replayers")
    return mod.replay(ctx, path)


def setup_all():
    """Pre-build library flavors and every harness (MANIFEST.setup_cmd)."""
    from concurrent.futures import ThreadPoolExecutor
    t0 = time.time()
    ck.build_lib("asan")
    ck.build_lib("fuzz")
    import plist
    jobs = plist.BUILD_JOBS
    def one(j):
        try:
            j()
            return 0
        except SystemExit as e:
            return int(e.code or 1)
    with ThreadPoolExecutor(max_workers=ck.NCPU) as ex:
        rcs = list(ex.map(one, jobs))
    log(f"setup done in {time.time()-t0:.1f}s rcs={rcs}")
    return 2 if any(rcs) else 0


import plist  # registers the checks
